#!/bin/bash
# Runs every claimed check at the given tier (default quick) and prints one line per check.
TIER="${1:-quick}"
cd "$(dirname "$0")"
for id in $(python3 -c "import json;print(' '.join(c['property_id'] for c in json.load(open('MANIFEST.json'))['checks']))"); do
  start=$(date +%s)
  ./check "$id" --tier "$TIER" > "/tmp/runall_$id.log" 2>&1
  rc=$?
  end=$(date +%s)
  echo "$id exit=$rc wall=$((end-start))s known=$(grep -c '^KNOWN-FINDING' /tmp/runall_$id.log) violations=$(grep -c '^VIOLATION' /tmp/runall_$id.log)"
done
