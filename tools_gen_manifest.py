#!/usr/bin/env python3
"""Generates /verif/MANIFEST.json from the table below (kept in one place so it stays valid)."""
import json, subprocess
HOOK_COMMITS = ["a1315f2", "d15244f", "22f1f7d"]
CHECKS = {
 "C01": dict(cat="exploration", tech="exhaustive enumeration of Model values (cores x context chains x relations x constants x declaration forms; logic trees x comparison forms; bound feeders x consumers), each compiled and decided exactly by a region abstraction: all discrete assignments x every cell of the partition of one continuous variable, exact LP/MILP projection of the linear model",
   text="For every compiled model the source feasible set S (exact reference semantics) and the projection L of the linear model onto the declared variables (integer auxiliaries enumerated, continuous ones by exact LP) are compared at every breakpoint, cell midpoint and beyond-end point of the merged partition, for every assignment of the discrete variables: since S and L are finite unions of closed intervals with all endpoints among the test points, S = L is decided on the whole real line, not on a grid.",
   note="Trusted: refsem evaluator, exact LP/MILP oracle, breakpoint computation (self-consistent with the evaluator); one continuous variable exact, further ones on a rational grid; mismatches within 1e-9 of the other set's boundary are attributed to f64 rounding of derived bounds; models with non-dyadic constants are checked on cell interiors only.", ref="4/C01"),
 "C02": dict(cat="exploration", tech="same enumeration with min/max objectives; per region cell two exact statements (never-better by exact MILP, attained by interval-union coverage of exact projections)",
   text="For every compiled objective model, every discrete assignment and every cell of the region partition (on which the source objective f is affine, self-checked): (i) no auxiliary extension of a source-feasible value has a better linear objective (incl. offset) than f; (ii) every source-feasible value has an extension attaining f. Together: best linear objective over extensions = f pointwise, hence equal optima and statuses.",
   note="Trusted: as C01. Non-dyadic models and models whose continuous variable occurs under a logic operator are skipped and counted.", ref="4/C02"),
 "C07": dict(cat="fault_enumeration", tech="exhaustive enumeration of models x EVERY propagation step budget 0..K (every prefix of the work-list is a stopping point), judged against exact source-feasible ranges; plus exhaustive expression x box enumeration for forward ranges",
   text="Through the verif_hooks view of the bounds analysis each model is analysed with every step budget from 0 to the first budget that is not exhausted, on raw and normalised constraints; every derived range, every published (rounded) domain and the compiled model's domains must contain the exact range of the variable over the source-feasible set; no NaN; empty range only with infeasibility recorded; infeasibility recorded only for infeasible models. bounds_of over 9 boxes must contain the exact range of every core-in-context expression.",
   note="Trusted: exact source ranges from the region partition; tolerance 1e-9 relative (the analyser's own). Hook 1 is a read-only wrapper over the private analyser.", ref="4/C07"),
 "C08": dict(cat="exploration", tech="exhaustive enumeration of compiled models (C01 families) plus an adversarial text alphabet; structural invariants and the missing-bounds contract checked on every output",
   text="Every linear model compiled from the C01 families and from 22 adversarial texts is checked: sorted duplicate-free variables equal to the domain keys, every source variable present, one coefficient per variable everywhere, only finite numbers, unique row names with first use of a user name verbatim, $-prefixed auxiliaries, no constant above 1e7; every MissingFiniteBounds error must list exactly the unbounded variables of the offending expression (per the hooked analysis).",
   note="Trusted: hook 1 for derived bounds; the magnitude threshold 1e7 for 'guessed constants' given menus with constants below 1e3.", ref="4/C08"),
 "C04": dict(cat="exploration", tech="exhaustive small-scope enumeration of LinearModel families x 5 solver entry points; independent certificate re-check of every returned solution",
   text="Every member of finite LinearModel families (domains x coefficients x relations x rhs x objective, plus degenerate specials) is solved by every built-in entry point that accepts it; each returned solution is re-checked against rows, bounds, integrality, objective value and named-row activities at 1e-6. Exhaustive within the stated menus, in worker subprocesses with a per-case watchdog.",
   note="Trusted: the harness's own arithmetic in f64 for the certificate (tolerance 1e-6*(1+|rhs|)); well-scaled coefficient menus; n<=4, m<=4.", ref="4/C04"),
 "C05": dict(cat="exploration", tech="exhaustive small-scope enumeration of LP/MILP families judged by an exact rational LP/MILP oracle (Bland simplex over BigRational + integer box enumeration)",
   text="Same families as C04; every verdict (optimum value, infeasible, unbounded, non-verdict) of every solver is compared with an exact rational oracle that is itself cross-checked against vertex enumeration. Hangs and aborts are caught by subprocess isolation and reported as violations.",
   note="Trusted: exact oracle (self-checked per run), small-scope hypothesis, well-scaled menus. Clarabel non-answers are tolerated and counted, wrong answers are not.", ref="4/C04-C05"),
 "C13": dict(cat="exploration", tech="exhaustive enumeration of continuous LinearModel families (all interleavings of variable kinds); exact rational equivalence check of original vs standard form (status, optimum, forward/backward point maps, per-variable projections)",
   text="Every model of the families is converted by into_standard_form(); shape invariants are checked and the standard form is proved equivalent to the original on that model by exact LP: same status and optimum (after flip and offset), optimal vertex maps back to a feasible original point, original optimum maps forward with slacks from residuals, and the range of every original variable is identical in both.",
   note="Trusted: exact rational LP oracle; naming convention $p/$m for split variables; dyadic menus so zero tolerance.", ref="4/C13"),
 "C14": dict(cat="model_checking", tech="explicit-state exploration of the tableau simplex as a transition system (states = tableaux, transitions = pivots) with an exact rational model derived per state and conformance checked on every transition",
   text="For every model of the families all pivot histories of phase one, solve, solve_step_by_step and raw step are recorded (hook 3). Each visited state is compared with the exact canonical tableau B^-1[A|b] computed from the standard form and the state's basis; each pivot is checked legal in the exact model (improving column, positive pivot, minimal ratio), b>=0 and objective monotone; final states are checked optimal / unboundedness genuine against the exact LP; iteration-limit on any member is a violation.",
   note="Trusted: exact Gauss-Jordan model over BigRational, pivot recorder hook, 1e-7 conformance tolerance; families n<=4, m<=4.", ref="4/C14"),
 "C15": dict(cat="fault_enumeration", engine="harness_vclock", tech="fault-point enumeration over the wall clock: microlp's clock (crate web-time) is replaced by a virtual clock, and every expiry point k=0..N+1 of every search x 11 mip_gap values is executed and judged by an exact MILP oracle",
   text="For every model of a MILP/LP menu the number N of clock reads of the whole search is measured under the virtual clock; solve_milp_lp_problem_with is then run with time_limit = k ns for every k in 0..N+1 and every gap in {unset,0,1e-9,0.1,0.5,10,-1,-0.0,NaN,+inf,-inf}. Every returned solution must pass the feasibility certificate; an Optimal label must be within the gap of the exact optimum; invalid gaps must be rejected; infeasible/unbounded models must never yield a solution.",
   note="Trusted: the 90-line virtual clock (vendor/web-time-vclock) patched in for crate web-time, the only clock microlp reads; exact MILP oracle. Real executions are a subset of the enumerated expiry points.", ref="4/C15"),
 "C17": dict(cat="exploration", tech="exhaustive enumeration of LinearModel families x coefficient/domain/naming alphabets, exported with to_lp_format and read back by an independent CPLEX-LP reader; exact comparison",
   text="Every member of the families (coefficients incl. -0.0, 1e-7, 1e9, 1/3; 11 domain forms; row/variable naming menus incl. user rows named like generated ones; min/max/satisfy; offsets; no rows) is exported and parsed by an independent reader; sense, objective, constant, rows, names, bounds and integrality markings must be identical to the model (numbers round-trip exactly).",
   note="Trusted: the harness's LP reader (CPLEX-LP subset). A variable occurring nowhere in the file with default range is tolerated.", ref="4/C17"),
 "C20": dict(cat="exploration", tech="exhaustive enumeration of continuous LinearModel families with named rows, filtered exactly to unique non-degenerate optima; reported shadow prices compared with exact multipliers that are self-checked against exact two-sided finite differences",
   text="For every family member with a unique non-degenerate optimum (exact test) whose +-1/1024 rhs perturbations keep the basis, the exact multipliers are computed and confirmed by exact re-solves; solve_real_lp_problem_clarabel's shadow price of every named row must equal the sensitivity in the user's sense (1e-5), inactive rows 0, unnamed rows absent. All subsets of unnamed rows are enumerated in family D1.",
   note="Trusted: exact LP oracle and n x n multiplier system; 1e-5 tolerance for the interior-point duals. Clarabel is the only default-feature solver that reports duals.", ref="4/C20"),
 "C09": dict(cat="exploration", tech="exhaustive enumeration of all well-formed token sequences up to a length bound (grammar-directed DFS), each parsed by rooc and by an independent precedence-climbing reference parser; tree shapes compared",
   text="Every well-formed token sequence up to length 6 (quick) / 8 (thorough) over operands, 9 binary operators, 2 prefix operators, parentheses and implicit multiplication is rendered in 6 spellings (keywords, symbolic aliases, with/without whitespace, identifiers that start with a keyword) in objective and constraint position; rooc's parse tree (and, when well-typed, the compiled expression) must have exactly the grouping the documented grammar gives.",
   note="Trusted: the reference parser (60 lines) written from the property statement; shapes are compared, which implies value equality.", ref="4/C09"),
 "C11": dict(cat="exploration", tech="exhaustive enumeration of expression trees (all shapes x all operators x prefix decorations) rendered by a reference printer, plus a construct corpus; format() output re-parsed and compared structurally, idempotence and compiled-model equality checked",
   text="Every tree with <= 3 (thorough: 4) binary operators over the 9 operators with prefix decorations is printed with exactly the necessary parentheses, fully parenthesised and with aliases; a corpus covers every declaration/block/iterator/constant form. For each text: format(t) parses, parses to the same program (JSON structure without spans), format is idempotent, and t and format(t) compile to the same Model.",
   note="Trusted: reference printer/parser pair (self-checked against each other on every tree); serde structure of PreModel/Model with spans removed.", ref="4/C11"),
 "C12": dict(cat="exploration", tech="exhaustive enumeration of compiled models (expression families, corpus, direct LinearModel families x coefficient/domain/naming alphabets); renderings recompiled through parse/type-check/transform/linearize and compared exactly",
   text="Model renderings of all compiled expression-family programs and corpus programs must be accepted and linearize to the same linear model; LinearModel renderings (of those models and of direct families with coefficients down to 1e-9 and up to 1e9, $-prefixed and indexed names, all domain forms, min/max/satisfy, offsets) must recompile to the same rows, objective, offset and domains, and render to the same text again.",
   note="Trusted: exact f64 comparison (Rust prints shortest round-trip decimals); all-zero rows compared by truth value; unused variables projected away; hand-built models are first compiled once (their first compilation must be exactly equivalent per the exact MILP oracle).", ref="4/C12"),
 "C10": dict(cat="exploration", tech="exhaustive enumeration of Exp trees up to a size bound over every constructor x 72 assignments, rewrites judged by an exact reference evaluator; exhaustive (template x constant x spelling) twin compilation",
   text="Part A: every Exp tree with <= 2 operator nodes (thorough: full leaf alphabet and size 3 over a reduced alphabet, 42M trees) is rewritten by simplify, flatten and both compositions; at every assignment where the original is defined the rewrite must be defined and equal, simplify must be idempotent, and a division whose denominator is zero or not constant must survive. Part B: 7 templates x 6 constants x 12 spellings (incl. where- and API-supplied constants) must compile to identical or exactly equivalent linear models, or be rejected alike.",
   note="Trusted: exact strict reference evaluator (truthy iff non-zero); assignments at which a non-constant logic operand is not 0/1 are outside the language and skipped; f64 folding of non-dyadic constants tolerated at 1e-12.", ref="4/C10"),
 "C18": dict(cat="exploration", tech="deviation-bounded exhaustive exploration of the whole pipeline in watchdog-guarded worker subprocesses: corpus (0 deviations), every single token-level mutation (1), pairs within a line (2, thorough), every nesting construct at every depth 1..64, all strings of length <= 3 over a 24-symbol alphabet in 5 slots",
   text="Every public stage (parse, format, type check, token map, transform, linearize, all renderings, standardise, tableau simplex, auto solver, one-shot solver, every error renderer) is run on every generated text under catch_unwind inside worker subprocesses with an 8 MiB stack, a 3 GiB address-space limit and an 8 s per-case watchdog; a panic, abort, stack overflow, allocation failure, timeout or failing error rendering is a violation attributed to the stage and mutation class.",
   note="Trusted: the mutation lexer and the subprocess/watchdog machinery. Does not cover arbitrary byte noise beyond length 3 (sampling is outside the technique) nor inputs larger than the corpus programs.", ref="4/C18"),
 "C19": dict(cat="exploration", tech="exhaustive enumeration of (template x typed atom) programs (singles, scoped, wrong-arity, and all atom pairs for two-hole templates); type checker verdict compared with the transform error kind",
   text="66 single-hole templates covering every operand, block, scoped body, iterator, range end, destructuring, index, function-argument, declaration-bound/iterator, constraint-iterator/name and constant position are filled with each of 30 typed atoms (and 6 scoped atoms in 8 scoped templates); 22 wrong-arity calls; thorough adds 12 two-hole templates x all atom pairs. Whenever create_type_checker accepts, transform must succeed or fail with a data-dependent kind only.",
   note="Trusted: the classification of TransformError kinds into type-class vs data-dependent (stated in the evidence assumptions); BinOpError between numeric kinds and UndeclaredVariableDomain (missing family member) count as data-dependent.", ref="4/C19"),
}
NA_REASON = "engine not built yet in this round (planned, see DESIGN.md section 4); not claimed until its check exists"
ALL = ["C%02d" % i for i in range(1, 21)]
def main():
    checks = []
    for pid in ALL:
        if pid not in CHECKS: continue
        c = CHECKS[pid]
        checks.append({
          "property_id": pid,
          "quick_cmd": f"./check {pid} --tier quick",
          "thorough_cmd": f"./check {pid} --tier thorough",
          "evidence_file": f"/verif/evidence/{pid}.json",
          "replay_cmd_template": f"./check {pid} --replay {{path}}",
          "engine": c.get("engine", "harness"),
          "level_claimed": {"category": c["cat"], "text": c["text"], "design_ref": "DESIGN.md section " + c["ref"]},
          "level_note": c["note"],
          "technique": c["tech"],
        })
    m = {
      "version": 1,
      "setup_cmd": "cd /verif/harness && CARGO_NET_OFFLINE=true cargo build --release --offline && cd /verif/harness_vclock && CARGO_NET_OFFLINE=true cargo build --release --offline",
      "hooks": {
        "guard": "cargo feature verif_hooks (crate rooc)",
        "enable": "the harness depends on rooc = { path = \"/repo/packages/rooc\", features = [\"verif_hooks\"] }; every ./check rebuilds it from the working tree",
        "baseline_off_cmd": "cd /repo/packages/rooc && cargo test --workspace --no-fail-fast --offline",
        "source_commits": HOOK_COMMITS,
        "add_only": True,
      },
      "engines": [
        {"name": "harness", "path": "/verif/harness", "serves_properties": sorted(k for k in CHECKS if CHECKS[k].get("engine","harness")=="harness"),
         "kind_free_text": "hand-rolled explicit-state / small-scope explorer in Rust linking the real crate; ranked enumeration, 16-way sharding, worker-subprocess isolation with watchdog, exact rational oracles"},
        {"name": "harness_vclock", "path": "/verif/harness_vclock", "serves_properties": ["C15"],
         "kind_free_text": "same sources as harness, built with crate web-time patched to the virtual clock in /verif/vendor/web-time-vclock (clock-expiry fault enumeration)"},
      ],
      "checks": checks,
      "not_applicable": [{"property_id": p, "reason": NA_REASON} for p in ALL if p not in CHECKS],
      "notes": "Exit codes: 0 held (KNOWN-FINDING lines possible), 1 VIOLATION, 2 machinery/build failure. Known findings: /verif/known_findings.json.",
    }
    json.dump(m, open("/verif/MANIFEST.json", "w"), indent=1)
    print("checks:", [c["property_id"] for c in checks])
main()
