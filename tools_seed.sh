#!/bin/bash
# tools_seed.sh <name> <property-id> [tier...]
#
# Confirms and evaluates one seeded property-breaking change produced by a
# sub-agent in the scratch worktree /tmp/wt_<name> (deliverables in
# /tmp/seed_<name>/):
#   1. the patch in /tmp/seed_<name>/patch.diff is exactly the worktree's diff;
#   2. with the change, the repository's own suite passes and the
#      demonstration fails; without the change the demonstration passes;
#   3. the change is stored as /verif/seeded/<name>/{patch.diff,demo.rs,notes.md};
#   4. it is applied to /repo, the listed checks (default: <id> quick) are run,
#      and /repo is restored straight afterwards.
# Prints one summary line per step.  Never commits anything in /repo.
set -u
NAME="$1"; ID="$2"; shift 2
TIERS=("$@"); [ ${#TIERS[@]} -eq 0 ] && TIERS=(quick)
WT=/tmp/wt_$NAME; SD=/tmp/seed_$NAME; OUT=/verif/seeded/$NAME
export CARGO_NET_OFFLINE=true
log() { echo "[seed $NAME] $*"; }

if [ -d "$WT" ] && [ ! -f "$OUT/confirm.txt" ]; then
  cd "$WT/packages/rooc" || exit 2
  # the agent's patch.diff is the change; the worktree is reset to it (stash refs are
  # shared between worktrees, so the worktree state itself is not trusted)
  git -C "$WT" checkout -- . ; rm -f tests/seed_demo.rs
  [ -s "$SD/patch.diff" ] || { log "EMPTY PATCH"; exit 2; }
  git -C "$WT" apply "$SD/patch.diff" || { log "patch.diff does not apply to HEAD"; exit 2; }
  [ -s "$SD/patch.diff" ] || { log "EMPTY PATCH"; exit 2; }
  rm -f tests/seed_demo.rs
  # suite with the change
  if cargo test --offline --no-fail-fast > /tmp/seed_$NAME.suite.log 2>&1; then
    log "suite-with-change: PASS ($(grep -c '^test result: ok' /tmp/seed_$NAME.suite.log) groups ok)"
    SUITE=pass
  else
    log "suite-with-change: FAIL"; grep -E '^test .* FAILED|panicked' /tmp/seed_$NAME.suite.log | head
    SUITE=fail
  fi
  cp "$SD/demo.rs" tests/seed_demo.rs
  if cargo test --offline --test seed_demo > /tmp/seed_$NAME.demo1.log 2>&1; then
    log "demo-with-change: PASS (unexpected)"; DEMO1=pass
  else
    log "demo-with-change: FAIL (expected)"; DEMO1=fail
  fi
  git -C "$WT" apply -R "$SD/patch.diff"
  if cargo test --offline --test seed_demo > /tmp/seed_$NAME.demo0.log 2>&1; then
    log "demo-without-change: PASS (expected)"; DEMO0=pass
  else
    log "demo-without-change: FAIL (unexpected)"; DEMO0=fail
  fi
  git -C "$WT" apply "$SD/patch.diff"
  rm -f tests/seed_demo.rs
  mkdir -p "$OUT"
  cp "$SD/patch.diff" "$OUT/patch.diff"; cp "$SD/demo.rs" "$OUT/demo.rs"
  [ -f "$SD/notes.md" ] && cp "$SD/notes.md" "$OUT/notes.md"
  echo "suite_with_change=$SUITE demo_with_change=$DEMO1 demo_without_change=$DEMO0" > "$OUT/confirm.txt"
  rm -f /tmp/seed_$NAME.suite.log /tmp/seed_$NAME.demo1.log /tmp/seed_$NAME.demo0.log
  if [ "$SUITE" != pass ] || [ "$DEMO1" != fail ] || [ "$DEMO0" != pass ]; then
    log "NOT CONFIRMED"; exit 3
  fi
fi

# SEED_CONFIRM_ONLY=1: stop after the confirmation (used while a long run is reading /repo)
[ "${SEED_CONFIRM_ONLY:-0}" = 1 ] && exit 0

# run the checks against /repo with the change applied
cd /verif || exit 2
[ -z "$(git -C /repo status --porcelain)" ] || { log "/repo not clean"; exit 2; }
git -C /repo apply "$OUT/patch.diff" || { log "patch does not apply to /repo"; exit 2; }
touch "$OUT/detect.txt"
for spec in "${TIERS[@]}"; do
  # spec is either "quick"/"thorough" (for $ID) or "Cxx:tier"
  case "$spec" in *:*) PID=${spec%%:*}; TIER=${spec##*:};; *) PID=$ID; TIER=$spec;; esac
  S=$(date +%s)
  ./check "$PID" --tier "$TIER" > /tmp/seed_$NAME.chk.log 2>&1; RC=$?
  E=$(( $(date +%s) - S ))
  V=$(grep -c '^VIOLATION' /tmp/seed_$NAME.chk.log)
  log "check $PID $TIER: exit=$RC violations=$V wall=${E}s"
  echo "$PID $TIER exit=$RC violations=$V wall=${E}s" >> "$OUT/detect.txt"
  grep '^VIOLATION' /tmp/seed_$NAME.chk.log | head -3 >> "$OUT/detect.txt"
  grep '^VIOLATION' /tmp/seed_$NAME.chk.log | head -3
  rm -f /tmp/seed_$NAME.chk.log
done
git -C /repo checkout -- .
[ -z "$(git -C /repo status --porcelain)" ] || log "WARNING: /repo not clean after revert"
