use rooc::*;
use std::sync::mpsc;
use std::time::Duration;
fn try_model(desc: &str, vars: Vec<(&str, VariableType)>, rows: Vec<(Vec<f64>, Comparison, f64)>, obj: Vec<f64>, ot: OptimizationType) {
    let mut m = LinearModel::new();
    for (n, t) in &vars { m.add_variable(n, *t); }
    for (c, r, b) in &rows { m.add_constraint(c.clone(), *r, *b); }
    m.set_objective(obj, ot);
    let (tx, rx) = mpsc::channel();
    let m2 = m.clone();
    std::thread::spawn(move || { let r = solve_milp_lp_problem(&m2); let _ = tx.send(format!("{:?}", r.map(|s| s.value()))); });
    match rx.recv_timeout(Duration::from_secs(2)) { Ok(s) => println!("{desc}: {s}"), Err(_) => println!("{desc}: HANG") }
}
fn main() {
    use Comparison::*;
    let free = VariableType::real();
    let nn = VariableType::non_negative_real();
    try_model("max -x-y, -x-y<=-1 free free", vec![("x", free), ("y", free)], vec![(vec![-1.0,-1.0], LessOrEqual, -1.0)], vec![-1.0,-1.0], OptimizationType::Max);
    try_model("min x+y, x+y>=1 free free", vec![("x", free), ("y", free)], vec![(vec![1.0,1.0], GreaterOrEqual, 1.0)], vec![1.0,1.0], OptimizationType::Min);
    try_model("min x+y, x+y>=1 free nn", vec![("x", free), ("y", nn)], vec![(vec![1.0,1.0], GreaterOrEqual, 1.0)], vec![1.0,1.0], OptimizationType::Min);
    try_model("min x, x>=1 free", vec![("x", free)], vec![(vec![1.0], GreaterOrEqual, 1.0)], vec![1.0], OptimizationType::Min);
    try_model("min x+y, x+y=1 free free", vec![("x", free), ("y", free)], vec![(vec![1.0,1.0], Equal, 1.0)], vec![1.0,1.0], OptimizationType::Min);
    try_model("min x+2y, x+2y>=1 free free", vec![("x", free), ("y", free)], vec![(vec![1.0,2.0], GreaterOrEqual, 1.0)], vec![1.0,2.0], OptimizationType::Min);
    try_model("min x-y, x-y>=1 free free", vec![("x", free), ("y", free)], vec![(vec![1.0,-1.0], GreaterOrEqual, 1.0)], vec![1.0,-1.0], OptimizationType::Min);
    try_model("min x+y, x+y>=1, x<=5 free free", vec![("x", free), ("y", free)], vec![(vec![1.0,1.0], GreaterOrEqual, 1.0),(vec![1.0,0.0], LessOrEqual, 5.0)], vec![1.0,1.0], OptimizationType::Min);
    try_model("min 0, x+y>=1 free free", vec![("x", free), ("y", free)], vec![(vec![1.0,1.0], GreaterOrEqual, 1.0)], vec![0.0,0.0], OptimizationType::Min);
    try_model("min x+y, x+y>=1 R(-inf,2) R(-inf,2)", vec![("x", VariableType::Real(f64::NEG_INFINITY,2.0)), ("y", VariableType::Real(f64::NEG_INFINITY,2.0))], vec![(vec![1.0,1.0], GreaterOrEqual, 1.0)], vec![1.0,1.0], OptimizationType::Min);
    std::process::exit(0);
}
