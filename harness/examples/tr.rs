// probe: compile a source file and print the linear model or the error
fn main() {
    let src = std::fs::read_to_string(std::env::args().nth(1).unwrap()).unwrap();
    match rooc::RoocParser::new(src.clone()).parse_and_transform(vec![], &indexmap::IndexMap::new()) {
        Ok(m) => {
            println!("MODEL\n{}", m);
            match rooc::Linearizer::linearize(m) {
                Ok(l) => println!("LINEAR\n{}", l),
                Err(e) => println!("LINERR {}", e),
            }
        }
        Err(e) => println!("ERR {}", e),
    }
}
