// probe: variable-free model through every solver
use rooc::*;
fn main() {
    let mut m = LinearModel::new();
    m.set_objective(vec![], OptimizationType::Min);
    println!("clarabel {:?}", std::panic::catch_unwind(|| solve_real_lp_problem_clarabel(&m).map(|s| s.value())));
    println!("micro {:?}", std::panic::catch_unwind(|| solve_real_lp_problem_micro_lp(&m).map(|s| s.value())));
    println!("simplex {:?}", std::panic::catch_unwind(|| solve_real_lp_problem_slow_simplex(&m, 100).map(|s| s.value())));
    println!("milp {:?}", std::panic::catch_unwind(|| solve_milp_lp_problem(&m).map(|s| s.value())));
}
