// probe: type check, then transform without the type check
fn main() {
    let src = std::fs::read_to_string(std::env::args().nth(1).unwrap()).unwrap();
    let p = rooc::RoocParser::new(src.clone());
    match p.type_check(&vec![], &indexmap::IndexMap::new()) {
        Ok(_) => println!("TC OK"),
        Err(e) => println!("TC ERR {}", e),
    }
    match p.parse() {
        Ok(pm) => match pm.transform(vec![], &indexmap::IndexMap::new()) {
            Ok(m) => println!("TRANSFORM OK\n{}", m),
            Err(e) => println!("TRANSFORM ERR {}", e),
        },
        Err(e) => println!("PARSE ERR {:?}", e),
    }
}
