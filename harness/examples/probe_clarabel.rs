use good_lp::*;
fn run(name: &str, nvars: usize, nonneg: &[bool], obj: &[f64], rows: &[(&[f64], i32, f64)]) {
    let mut vars = ProblemVariables::new();
    let xs: Vec<Variable> = (0..nvars).map(|i| if nonneg[i] { vars.add(variable().min(0.0)) } else { vars.add(variable().min(f64::NEG_INFINITY).max(f64::INFINITY)) }).collect();
    let mut e = Expression::from(0.0);
    for i in 0..nvars { e = e + obj[i] * xs[i]; }
    let mut m = vars.minimise(e).using(clarabel);
    for (c, rel, b) in rows {
        let mut e = Expression::from(0.0);
        for i in 0..nvars { e = e + c[i] * xs[i]; }
        m.add_constraint(match rel { 0 => e.eq(*b), 1 => e.leq(*b), _ => e.geq(*b) });
    }
    match m.solve() {
        Ok(s) => { let i = s.inner(); println!("{name}: status {:?} r_prim={:e} r_dual={:e} obj={:e} obj_dual={:e} iters={} x={:?}", i.status, i.r_prim, i.r_dual, i.obj_val, i.obj_val_dual, i.iterations, i.x) }
        Err(e) => println!("{name}: err {e:?}"),
    }
}
fn main() {
    let f = [false, false, false];
    run("A empty-row unbounded", 2, &f, &[-1.0, 1.0], &[(&[0.0, 0.0], 1, 0.0), (&[-1.0, -1.0], 0, 2.0)]);
    run("B contradictory eq", 2, &f, &[1.0, 1.0], &[(&[1.0, 1.0], 0, 2.0), (&[-1.0, -1.0], 0, 2.0)]);
    run("C empty 0=-1", 2, &f, &[-1.0, -1.0], &[(&[-1.0, 1.0], 0, 2.0), (&[0.0, 0.0], 0, -1.0)]);
    run("D regular infeasible?", 3, &f, &[-1.0, -1.0, -1.0], &[(&[-1.0, -1.0, 1.0], 0, 1.0), (&[-1.0, 1.0, 1.0], 0, 0.0)]);
    run("E regular unbounded", 2, &f, &[1.0, 0.0], &[(&[1.0, -1.0], 0, 0.0), (&[-1.0, 1.0], 0, 0.0)]);
    run("F good", 2, &[true, true], &[1.0, 1.0], &[(&[1.0, 1.0], 2, 1.0)]);
    run("G good free", 2, &f, &[1.0, 1.0], &[(&[1.0, 1.0], 2, 1.0), (&[1.0, -1.0], 0, 0.0)]);
}
