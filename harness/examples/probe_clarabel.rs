use good_lp::*;
fn main() {
    // min -x + y s.t. 0<=0; -x-y=2
    {
        let mut vars = ProblemVariables::new();
        let x = vars.add(variable().min(f64::NEG_INFINITY).max(f64::INFINITY));
        let y = vars.add(variable().min(f64::NEG_INFINITY).max(f64::INFINITY));
        let mut m = vars.minimise(-1.0 * x + y).using(clarabel);
        m.add_constraint((0.0 * x + 0.0 * y).leq(0.0));
        m.add_constraint((-1.0 * x - 1.0 * y).eq(2.0));
        match m.solve() { Ok(s) => println!("A status {:?} x={} y={}", s.inner().status, s.value(x), s.value(y)), Err(e) => println!("A err {e:?}") }
    }
    {
        let mut vars = ProblemVariables::new();
        let x = vars.add(variable().min(f64::NEG_INFINITY).max(f64::INFINITY));
        let y = vars.add(variable().min(f64::NEG_INFINITY).max(f64::INFINITY));
        let mut m = vars.minimise(-1.0 * x + y).using(clarabel);
        m.add_constraint((-1.0 * x - 1.0 * y).eq(2.0));
        match m.solve() { Ok(s) => println!("A' (no empty row) status {:?} x={} y={}", s.inner().status, s.value(x), s.value(y)), Err(e) => println!("A' err {e:?}") }
    }
    {
        let mut vars = ProblemVariables::new();
        let x = vars.add(variable().min(f64::NEG_INFINITY).max(f64::INFINITY));
        let y = vars.add(variable().min(f64::NEG_INFINITY).max(f64::INFINITY));
        let mut m = vars.minimise(x + y).using(clarabel);
        m.add_constraint((x + y).eq(2.0));
        m.add_constraint((-1.0 * x - 1.0 * y).eq(2.0));
        match m.solve() { Ok(s) => println!("B status {:?} x={} y={}", s.inner().status, s.value(x), s.value(y)), Err(e) => println!("B err {e:?}") }
    }
}
