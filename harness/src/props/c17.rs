//! C17 — LP export denotes the same model, judged by an independent reader of the CPLEX-LP subset.
use crate::core::{Digits, Local, Run};
use crate::exact::Rel;
use crate::lm::{Dom, LmFamily, LmSpec, Row, Sense};
use serde_json::json;
use std::collections::BTreeMap;

#[derive(Debug, Default, Clone)]
pub struct LpFile {
    pub maximize: bool,
    pub obj: BTreeMap<String, f64>,
    pub obj_const: f64,
    pub rows: Vec<(String, BTreeMap<String, f64>, Rel, f64)>,
    pub bounds: BTreeMap<String, (f64, f64)>,
    pub binaries: Vec<String>,
    pub generals: Vec<String>,
    pub order: Vec<String>,
}

fn parse_num(tok: &str) -> Option<f64> {
    let t = tok.to_ascii_lowercase();
    match t.as_str() {
        "inf" | "infinity" | "+inf" | "+infinity" => return Some(f64::INFINITY),
        "-inf" | "-infinity" => return Some(f64::NEG_INFINITY),
        _ => {}
    }
    let first = tok.chars().next()?;
    if !(first.is_ascii_digit() || first == '.' || ((first == '-' || first == '+') && tok.len() > 1)) {
        return None;
    }
    tok.parse::<f64>().ok()
}

/// parse a linear expression from tokens; returns (terms, constant)
fn parse_expr(toks: &[&str], order: &mut Vec<String>) -> Result<(BTreeMap<String, f64>, f64), String> {
    let mut terms: BTreeMap<String, f64> = BTreeMap::new();
    let mut constant = 0.0;
    let mut sign = 1.0;
    let mut coef: Option<f64> = None;
    let mut flush_const = |coef: &mut Option<f64>, sign: &mut f64, constant: &mut f64| {
        if let Some(c) = coef.take() {
            *constant += *sign * c;
            *sign = 1.0;
        }
    };
    for t in toks {
        match *t {
            "+" => {
                flush_const(&mut coef, &mut sign, &mut constant);
                sign = 1.0;
            }
            "-" => {
                flush_const(&mut coef, &mut sign, &mut constant);
                sign = -1.0;
            }
            t => {
                if let Some(v) = parse_num(t) {
                    if coef.is_some() {
                        return Err(format!("two consecutive numbers near {t}"));
                    }
                    coef = Some(v);
                } else {
                    let c = sign * coef.take().unwrap_or(1.0);
                    sign = 1.0;
                    if terms.contains_key(t) {
                        return Err(format!("variable {t} occurs twice in one expression"));
                    }
                    terms.insert(t.to_string(), c);
                    if !order.contains(&t.to_string()) {
                        order.push(t.to_string());
                    }
                }
            }
        }
    }
    flush_const(&mut coef, &mut sign, &mut constant);
    Ok((terms, constant))
}

/// the LP format lets an expression continue on the following lines: the objective runs up to the next section
/// keyword, a row up to its relation and right-hand side; physical lines are joined into logical ones
fn logical_lines(text: &str) -> Vec<String> {
    let mut out: Vec<String> = vec![];
    let mut sec = 0; // 0 other, 1 objective, 2 rows
    let mut pending = String::new();
    for raw in text.lines() {
        let line = raw.trim();
        if line.is_empty() {
            continue;
        }
        let low = line.to_ascii_lowercase();
        let keyword = matches!(low.as_str(), "minimize" | "minimise" | "min" | "maximize" | "maximise" | "max" | "subject to" | "st" | "s.t." | "such that" | "bounds" | "bound" | "binary" | "binaries" | "bin" | "general" | "generals" | "gen" | "end");
        if keyword {
            if !pending.is_empty() {
                out.push(std::mem::take(&mut pending));
            }
            sec = match low.as_str() {
                "minimize" | "minimise" | "min" | "maximize" | "maximise" | "max" => 1,
                "subject to" | "st" | "s.t." | "such that" => 2,
                _ => 0,
            };
            out.push(line.to_string());
            continue;
        }
        match sec {
            1 => {
                pending.push(' ');
                pending.push_str(line);
            }
            2 => {
                pending.push(' ');
                pending.push_str(line);
                let toks: Vec<&str> = pending.split_whitespace().collect();
                let complete = toks.len() >= 2 && matches!(toks[toks.len() - 2], "<=" | ">=" | "=" | "=<" | "=>" | "<" | ">") && parse_num(toks[toks.len() - 1]).is_some();
                if complete {
                    out.push(std::mem::take(&mut pending));
                }
            }
            _ => out.push(line.to_string()),
        }
    }
    if !pending.is_empty() {
        out.push(pending);
    }
    out
}

pub fn read_lp(text: &str) -> Result<LpFile, String> {
    let mut f = LpFile::default();
    #[derive(PartialEq)]
    enum Sec {
        None,
        Obj,
        Rows,
        Bounds,
        Binary,
        General,
        End,
    }
    let mut sec = Sec::None;
    let mut seen_obj = false;
    let joined = logical_lines(text);
    for raw in joined.iter() {
        let line = raw.trim();
        if line.is_empty() {
            continue;
        }
        let low = line.to_ascii_lowercase();
        match low.as_str() {
            "minimize" | "minimise" | "min" => {
                sec = Sec::Obj;
                f.maximize = false;
                continue;
            }
            "maximize" | "maximise" | "max" => {
                sec = Sec::Obj;
                f.maximize = true;
                continue;
            }
            "subject to" | "st" | "s.t." | "such that" => {
                sec = Sec::Rows;
                continue;
            }
            "bounds" | "bound" => {
                sec = Sec::Bounds;
                continue;
            }
            "binary" | "binaries" | "bin" => {
                sec = Sec::Binary;
                continue;
            }
            "general" | "generals" | "gen" => {
                sec = Sec::General;
                continue;
            }
            "end" => {
                sec = Sec::End;
                continue;
            }
            _ => {}
        }
        let toks: Vec<&str> = line.split_whitespace().collect();
        match sec {
            Sec::None => return Err(format!("text before the objective section: {line}")),
            Sec::End => return Err(format!("text after End: {line}")),
            Sec::Obj => {
                if seen_obj {
                    return Err("two objective lines".into());
                }
                seen_obj = true;
                let toks = if toks[0].ends_with(':') { &toks[1..] } else { &toks[..] };
                let (terms, c) = parse_expr(toks, &mut f.order)?;
                f.obj = terms;
                f.obj_const = c;
            }
            Sec::Rows => {
                let (name, toks) = if toks[0].ends_with(':') { (toks[0].trim_end_matches(':').to_string(), &toks[1..]) } else { (String::new(), &toks[..]) };
                let pos = toks.iter().position(|t| matches!(*t, "<=" | ">=" | "=" | "=<" | "=>" | "<" | ">")).ok_or(format!("row without relation: {line}"))?;
                let rel = match toks[pos] {
                    "<=" | "=<" | "<" => Rel::Le,
                    ">=" | "=>" | ">" => Rel::Ge,
                    _ => Rel::Eq,
                };
                let (terms, c) = parse_expr(&toks[..pos], &mut f.order)?;
                if toks.len() != pos + 2 {
                    return Err(format!("row right-hand side must be a single number: {line}"));
                }
                let rhs = parse_num(toks[pos + 1]).ok_or(format!("bad rhs in {line}"))?;
                f.rows.push((name, terms, rel, rhs - c));
            }
            Sec::Bounds => {
                if toks.len() == 2 && toks[1].eq_ignore_ascii_case("free") {
                    if f.bounds.insert(toks[0].to_string(), (f64::NEG_INFINITY, f64::INFINITY)).is_some() {
                        return Err(format!("two bound entries for {}", toks[0]));
                    }
                } else if toks.len() == 5 && toks[1] == "<=" && toks[3] == "<=" {
                    let lo = parse_num(toks[0]).ok_or(format!("bad bound {line}"))?;
                    let hi = parse_num(toks[4]).ok_or(format!("bad bound {line}"))?;
                    if f.bounds.insert(toks[2].to_string(), (lo, hi)).is_some() {
                        return Err(format!("two bound entries for {}", toks[2]));
                    }
                } else if toks.len() == 3 && (toks[1] == "<=" || toks[1] == ">=") {
                    // x <= u  /  x >= l  /  l <= x
                    let (name, v, is_upper) = if let Some(v) = parse_num(toks[2]) { (toks[0], v, toks[1] == "<=") } else if let Some(v) = parse_num(toks[0]) { (toks[2], v, toks[1] == ">=") } else { return Err(format!("bad bound {line}")) };
                    let e = f.bounds.entry(name.to_string()).or_insert((0.0, f64::INFINITY));
                    if is_upper {
                        e.1 = v;
                    } else {
                        e.0 = v;
                    }
                } else {
                    return Err(format!("unsupported bound line: {line}"));
                }
            }
            Sec::Binary => f.binaries.extend(toks.iter().map(|s| s.to_string())),
            Sec::General => f.generals.extend(toks.iter().map(|s| s.to_string())),
        }
    }
    if sec != Sec::End {
        return Err("missing End".into());
    }
    if !seen_obj {
        return Err("missing objective".into());
    }
    Ok(f)
}

fn same(a: f64, b: f64) -> bool {
    a == b || (a.is_nan() && b.is_nan())
}

pub fn check_model(spec: &LmSpec, l: &mut Local) {
    let lm = spec.to_rooc();
    let text = match crate::core::catch(|| lm.to_lp_format()) {
        Ok(t) => t,
        Err(p) => {
            l.violation("panic", format!("to_lp_format panicked: {p}"), json!({"model": spec.show()}));
            return;
        }
    };
    let case = || json!({"model": spec.show(), "lp": text});
    l.sample(case);
    let f = match read_lp(&text) {
        Ok(f) => f,
        Err(e) => {
            l.violation("unreadable", format!("independent LP reader rejects the export: {e}"), case());
            return;
        }
    };
    l.count("exports_read");
    l.nontrivial(&spec.canon_hash());
    let names: Vec<&String> = spec.vars.iter().map(|v| &v.0).collect();
    // sense
    if f.maximize != (spec.sense == Sense::Max) {
        l.violation("sense", "optimisation sense differs", case());
    }
    // objective
    for (i, n) in names.iter().enumerate() {
        let got = f.obj.get(*n).copied().unwrap_or(0.0);
        if !same(got, spec.obj[i]) && !(got == 0.0 && spec.obj[i] == 0.0) {
            l.violation("objective-coefficient", format!("objective coefficient of {n}: file {got}, model {}", spec.obj[i]), case());
        }
    }
    for n in f.obj.keys() {
        if !names.contains(&n) {
            l.violation("unknown-variable", format!("objective mentions unknown variable {n}"), case());
        }
    }
    if f.obj_const != spec.offset {
        l.violation("objective-constant", format!("objective constant: file {}, model {}", f.obj_const, spec.offset), case());
    }
    // rows
    if f.rows.len() != spec.rows.len() {
        l.violation("row-count", format!("file has {} rows, model {}", f.rows.len(), spec.rows.len()), case());
        return;
    }
    let mut seen_names: BTreeMap<String, usize> = BTreeMap::new();
    for (ri, (r, fr)) in spec.rows.iter().zip(&f.rows).enumerate() {
        for (i, n) in names.iter().enumerate() {
            let got = fr.1.get(*n).copied().unwrap_or(0.0);
            let want = r.coef.get(i).copied().unwrap_or(0.0);
            if got != want {
                l.violation("row-coefficient", format!("row {ri} coefficient of {n}: file {got}, model {want}"), case());
            }
        }
        for n in fr.1.keys() {
            if !names.contains(&n) {
                l.violation("unknown-variable", format!("row {ri} mentions unknown variable {n}"), case());
            }
        }
        if fr.2 != r.rel {
            l.violation("row-relation", format!("row {ri} relation differs"), case());
        }
        if fr.3 != r.rhs {
            l.violation("row-rhs", format!("row {ri} rhs: file {}, model {}", fr.3, r.rhs), case());
        }
        if !r.name.is_empty() && fr.0 != r.name {
            l.violation("row-name", format!("row {ri} user name {} exported as {}", r.name, fr.0), case());
        }
        if fr.0.is_empty() {
            l.violation("row-unnamed", format!("row {ri} has no name in the file"), case());
        }
        if let Some(prev) = seen_names.insert(fr.0.clone(), ri) {
            let generated_involved = r.name.is_empty() || spec.rows[prev].name.is_empty();
            if generated_involved {
                l.violation("generated-row-name-collision", format!("rows {prev} and {ri} are both called {} in the file", fr.0), case());
            } else {
                l.count("duplicate-user-row-names-preserved");
            }
        }
    }
    // bounds and integrality
    for (n, d) in &spec.vars {
        let (mut lo, mut hi) = f.bounds.get(n).copied().unwrap_or((0.0, f64::INFINITY));
        let is_bin = f.binaries.contains(n);
        let is_gen = f.generals.contains(n);
        if is_bin {
            lo = lo.max(0.0);
            hi = hi.min(1.0);
            if f.bounds.get(n).is_none() {
                lo = 0.0;
                hi = 1.0;
            }
        }
        let (wlo, whi) = d.bounds();
        if lo != wlo || hi != whi {
            l.violation("bounds", format!("bounds of {n}: file [{lo},{hi}], model [{wlo},{whi}]"), case());
        }
        let want_int = d.is_int();
        if (is_bin || is_gen) != want_int {
            l.violation("integrality", format!("integrality of {n}: file {}, model {}", is_bin || is_gen, want_int), case());
        }
        if matches!(d, Dom::Bool) && !is_bin {
            l.violation("binary-marking", format!("{n} is Boolean but not in Binary"), case());
        }
        if is_bin && is_gen {
            l.violation("integrality", format!("{n} listed both as Binary and General"), case());
        }
    }
    for n in f.bounds.keys().chain(f.binaries.iter()).chain(f.generals.iter()) {
        if !names.contains(&n) {
            l.violation("unknown-variable", format!("bounds/integrality section mentions unknown variable {n}"), case());
        }
    }
}

fn families(quick: bool) -> Vec<LmFamily> {
    let third = 1.0 / 3.0;
    let coefs = vec![0.0, 1.0, -1.0, 2.5, -2.5, -0.0, 1e-7, 1e9, third, 9.87654321e-7, -1.23456789e18];
    let doms = vec![
        Dom::Free,
        Dom::NonNeg,
        Dom::NonNegB(1.0, 4.0),
        Dom::NonNegB(-2.5, 5.0),
        Dom::NonNegB(-1.0, f64::INFINITY),
        Dom::NonNegB(0.0, 1e20),
        Dom::Real(-1e25, 7.5),
        Dom::NonNegB(0.0, 2.5),
        Dom::Real(-2.0, 3.0),
        Dom::Real(f64::NEG_INFINITY, 2.0),
        Dom::Real(-1.0, f64::INFINITY),
        Dom::Real(-5.0, -1.0),
        Dom::Real(0.0, 3.0),
        Dom::Real(-2.0, 0.0),
        Dom::Real(f64::NEG_INFINITY, -1.0),
        Dom::Real(1.0, f64::INFINITY),
        Dom::NonNegB(0.0, 0.0),
        Dom::Bool,
        Dom::Int(-3, 2),
        Dom::Int(0, 5),
        Dom::Int(0, 1),
        Dom::Int(-1, 0),
        Dom::Int(2, 2),
    ];
    let mut v = vec![];
    v.push(LmFamily {
        name: "L1-coefficients",
        n: 2,
        m: 1,
        doms: vec![Dom::NonNeg],
        coefs: if quick { vec![0.0, -1.0, 2.5, -0.0, 1e-7, third, 9.87654321e-7, -1.23456789e18] } else { coefs.clone() },
        rhss: vec![0.0, -1.5, 1e9, -0.0, third],
        rels: vec![Rel::Le, Rel::Ge, Rel::Eq],
        objs: if quick { vec![0.0, 1.0, -2.5, 1e-7, -1.23456789e18] } else { coefs.clone() },
        senses: vec![Sense::Min, Sense::Max, Sense::Satisfy],
        offsets: vec![0.0, 2.5, -1.0, -0.0],
        named: true,
    });
    v.push(LmFamily {
        name: "L2-domains",
        n: if quick { 2 } else { 3 },
        m: 1,
        doms: doms.clone(),
        coefs: vec![0.0, 1.0, -2.5],
        rhss: vec![0.0, 2.0],
        rels: vec![Rel::Le, Rel::Ge, Rel::Eq],
        objs: vec![0.0, 1.0],
        senses: vec![Sense::Min, Sense::Max],
        offsets: vec![0.0],
        named: false,
    });
    v.push(LmFamily {
        name: "L3-norows",
        n: 2,
        m: 0,
        doms: doms.clone(),
        coefs: vec![0.0],
        rhss: vec![0.0],
        rels: vec![Rel::Le],
        objs: vec![0.0, -1.0, third],
        senses: vec![Sense::Min, Sense::Max, Sense::Satisfy],
        offsets: vec![0.0, -2.5],
        named: false,
    });
    v
}

const ROW_NAMES: [&str; 8] = ["", "c1", "c2", "c3", "cap", "r$1", "x", "c_2"];
const VAR_NAMES: [&str; 8] = ["x", "$abs_0", "x_1", "y2", "c1", "e1", "E3", "e"];
const VAR_DOMS: [Dom; 4] = [Dom::NonNeg, Dom::Real(-1.0, 2.0), Dom::Bool, Dom::Int(0, 5)];

fn naming_size() -> u64 {
    (ROW_NAMES.len() as u64).pow(3) * (VAR_NAMES.len() as u64) * 2 * VAR_DOMS.len() as u64
}
fn naming_case(i: u64) -> LmSpec {
    let mut d = Digits(i);
    let mut rows = vec![];
    for r in 0..3 {
        let name = *d.of(&ROW_NAMES);
        rows.push(Row { coef: vec![1.0, if r == 1 { 0.0 } else { -2.0 }], rel: crate::lm::RELS[r], rhs: r as f64, name: name.to_string() });
    }
    let v0 = *d.of(&VAR_NAMES);
    let second = if d.pick(2) == 0 { "y" } else { "$max_0_select_1" };
    let dom0 = d.of(&VAR_DOMS).clone();
    LmSpec {
        vars: vec![(v0.to_string(), dom0), (second.to_string(), Dom::Int(-1, 3))],
        rows,
        obj: vec![1.0, -1.0],
        offset: 0.0,
        sense: Sense::Min,
    }
}

/// family W: wide models. n variables with short or long names; every row and the objective mention every
/// variable, so the rendered expressions run to hundreds or thousands of characters
const WIDE_N: [usize; 8] = [8, 12, 20, 30, 36, 40, 64, 120];
fn wide_size() -> u64 {
    WIDE_N.len() as u64 * 3 * 2 * 2
}
fn wide_case(i: u64) -> LmSpec {
    let mut d = Digits(i);
    let n = *d.of(&WIDE_N);
    let naming = d.pick(3);
    let coef_style = d.pick(2);
    let sense = if d.pick(2) == 0 { Sense::Min } else { Sense::Max };
    let name = |k: usize| match naming {
        0 => format!("x{k}"),
        1 => format!("production_of_item_{k:03}"),
        _ => format!("$max_{k}_select_{}", k % 3),
    };
    let coef = |r: usize, k: usize| -> f64 {
        if coef_style == 0 {
            ((k * 7 + r * 3) % 19) as f64 - 9.0 + if (k + r) % 19 == 9 { 20.0 } else { 0.0 }
        } else {
            (((k * 5 + r) % 13) as f64 + 1.0) * 1.25 * if k % 2 == 0 { -1.0 } else { 1.0 }
        }
    };
    let vars: Vec<(String, Dom)> = (0..n).map(|k| (name(k), if k % 4 == 3 { Dom::Int(0, 9) } else { Dom::NonNeg })).collect();
    let rows = (0..3).map(|r| Row { coef: (0..n).map(|k| coef(r, k)).collect(), rel: crate::lm::RELS[r], rhs: 10.0 * (r as f64 + 1.0), name: if r == 1 { String::new() } else { format!("wide_{r}") } }).collect();
    LmSpec { vars, rows, obj: (0..n).map(|k| coef(3, k)).collect(), offset: 2.5, sense }
}

pub fn run(mut run: Run) -> ! {
    crate::core::silence_panics();
    run.rule = "every member of finite LinearModel families (coefficient alphabet incl. -0.0, 1e-7, 1e9, 1/3 in objective/rows/rhs/offset; 15 domain forms (incl. finite bounds of 1e20 and -1e25 and NonNegativeReal kinds with a negative lower bound); row-naming and variable-naming menus; min/max/satisfy; no-row models; wide models of 8..120 variables with short, 20-character and auxiliary-style names whose rows and objective mention every variable; plus the linear models compiled from the C02 objective family and the C01 constraint family) is exported with to_lp_format() and read back by an independent reader; distinct = canonical model text; non-trivial = export was readable".into();
    run.assume("independent reader of the CPLEX-LP subset (sections, optional row labels, signed terms with optional coefficients, objective constant, default bounds [0,+inf), free, +-infinity, Binary, General, End; expressions may continue over several lines); numbers must round-trip exactly (Rust prints shortest round-trip decimals)");
    run.assume("a variable that occurs nowhere in the file (all-zero coefficients, default range) is tolerated and counted");
    for fam in families(run.quick()) {
        let f2 = fam.clone();
        run.family(fam.name, fam.size(), move |i, l| {
            let spec = f2.get(i);
            check_model(&spec, l);
        });
    }
    run.family("W-wide-rows", wide_size(), |i, l| {
        let spec = wide_case(i);
        check_model(&spec, l);
    });
    run.family("L4-naming", naming_size(), |i, l| {
        let spec = naming_case(i);
        check_model(&spec, l);
    });
    // linear models as the compiler produces them ($-prefixed auxiliaries, generated and user row names,
    // tightened domains, offsets): the C02 objective family and the C01 constraint family at depth 1
    {
        let n = crate::props::c02::family_size_pub(1, true);
        run.family("K-compiled-objective-models", n, |i, l| {
            let case = crate::props::c02::family_pub(i, 1, true);
            if let Ok(Ok(lm)) = crate::core::catch(|| case.model.compile()) {
                if let Some(spec) = LmSpec::from_rooc(&lm) {
                    l.count("compiled-models");
                    check_model(&spec, l);
                }
            }
        });
        let na = crate::props::c01::family_a_size(1, true);
        run.family("KA-compiled-constraint-models", na, |i, l| {
            let case = crate::props::c01::family_a(i, 1, true);
            if let Ok(Ok(lm)) = crate::core::catch(|| case.model.compile()) {
                if let Some(spec) = LmSpec::from_rooc(&lm) {
                    l.count("compiled-models");
                    check_model(&spec, l);
                }
            }
        });
    }
    run.require("exports_read");
    run.finish()
}
