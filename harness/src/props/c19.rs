//! C19 — type checking is sound: an accepted program never fails transformation with a type-class error.
use crate::core::{Local, Run};
use indexmap::IndexMap;
use rooc::RoocParser;
use rooc::model_transformer::TransformError;
use serde_json::json;

const PRELUDE_WHERE: &str = "where\n    let A = [1, 2, 3]\n    let B = [4, 5]\n    let EM = []\n    let MX = [1, \"a\", true]\n    let MM = [[1, 2], [3, 4.5]]\n    let M = [[1, 2], [3, 4]]\n    let S = [\"a\", \"b\"]\n    let BS = [true, false]\n    let G = Graph {\n        P -> [Q: 2, R],\n        Q -> [R: 1.5],\n        R\n    }\n    let n0 = 2\n    let f0 = 2.5\n    let t0 = true\n    let s0 = \"P\"\n";
const PRELUDE_DEFINE: &str = "define\n    x as Real(0, 10)\n    b as Boolean\n    y_i as Real(0, 5) for i in 0..4\n";

/// (name, kind, text) — typed atoms that fill every hole
const ATOMS: &[(&str, &str)] = &[
    ("int", "3"),
    ("zero", "0"),
    ("neg-int", "-2"),
    ("float", "2.5"),
    ("bool", "true"),
    ("string", "\"P\""),
    ("num-array", "A"),
    ("num-array-literal", "[7, 8]"),
    ("empty-array", "EM"),
    ("nested-array", "M"),
    ("string-array", "S"),
    ("bool-array", "BS"),
    ("graph", "G"),
    ("int-const", "n0"),
    ("float-const", "f0"),
    ("bool-const", "t0"),
    ("string-const", "s0"),
    ("array-element", "A[0]"),
    ("array-row", "M[0]"),
    ("len-call", "len(A)"),
    ("edges-call", "edges(G)"),
    ("nodes-call", "nodes(G)"),
    ("enumerate-call", "enumerate(A)"),
    ("range-expr", "(1 + 1)"),
    ("domain-var", "x"),
    ("bool-domain-var", "b"),
    ("compound-var", "y_1"),
    ("undeclared", "zz"),
    ("undeclared-compound", "q_1"),
    ("infinity", "Infinity"),
    ("mixed-array", "MX"),
    ("mixed-array-literal", "[1, \"a\"]"),
    ("mixed-matrix", "MM"),
    // blocks over constants: a number for the checker, but not a primitive the transformer can evaluate
    // binary operations between constants of different kinds
    ("bool-and-number", "(true and 1)"),
    ("number-or-bool", "(1 or true)"),
    ("bool-plus-number", "(true + 1)"),
    ("string-plus-number", "(\"a\" + 1)"),
    ("not-number", "(not 2)"),
    ("constant-block", "max { 1, 2 }"),
    ("constant-scoped-block", "sum(q in 0..2) { q }"),
];
/// atoms only meaningful inside a scope that binds them
const SCOPED_ATOMS: [(&str, &str); 6] = [("node-var", "nd"), ("edge-var", "ed"), ("tuple-var", "tp"), ("iter-int", "k"), ("iter-elem", "v"), ("shadowed-const", "A")];

/// the scope every single-hole template is wrapped into (family T5): binds one variable of every kind that
/// only exists inside an iteration
const WRAP_SCOPE: &str = "wnd in nodes(G), wed in edges(G), (weu, wev, wew) in edges(G), wtp in enumerate(A), (wse, wsi) in enumerate(S), wbv in BS, wrow in M, wsk in 0..2, wsv in A";
const WRAP_ATOMS: [(&str, &str); 10] = [
    ("node-var", "wnd"),
    ("edge-var", "wed"),
    ("edge-endpoint", "weu"),
    ("edge-weight", "wew"),
    ("tuple-var", "wtp"),
    ("string-elem", "wse"),
    ("bool-elem", "wbv"),
    ("row-elem", "wrow"),
    ("iter-int", "wsk"),
    ("iter-elem", "wsv"),
];

/// single-hole templates: (name, objective, constraints, extra-define). {H} is the hole.
const TEMPLATES: &[(&str, &str, &str, &str)] = &[
    ("objective-operand", "min {H}", "x >= 0", ""),
    ("add-right", "min x", "x + {H} >= 0", ""),
    ("add-left", "min x", "{H} + x >= 0", ""),
    ("sub-right", "min x", "x - {H} >= 0", ""),
    ("mul-left", "min x", "{H} * x >= 0", ""),
    ("mul-right", "min x", "x * {H} >= 0", ""),
    ("div-right", "min x", "x / {H} >= 0", ""),
    ("div-left", "min x", "{H} / 2 >= 0", ""),
    ("implicit-mul", "min x", "2({H}) >= 0", ""),
    ("neg", "min x", "-{H} <= 0", ""),
    ("not-bare", "min x", "not {H}", ""),
    ("and-left", "min x", "{H} and b", ""),
    ("or-right", "min x", "b or {H}", ""),
    ("implies-left", "min x", "{H} implies b", ""),
    ("iff-right", "min x", "b iff {H}", ""),
    ("xor-left", "min x", "{H} xor b", ""),
    ("bare-assertion", "min x", "{H}", ""),
    ("comparison-rhs", "min x", "x >= {H}", ""),
    ("abs-block", "min abs{ {H} }", "x >= 0", ""),
    ("max-block", "min x", "max{ x, {H} } <= 9", ""),
    ("min-block", "min x", "min{ {H}, x } >= 0", ""),
    ("avg-block", "min avg{ {H}, x }", "x >= 0", ""),
    ("all-block", "min x", "all{ b, {H} }", ""),
    ("any-block", "min x", "any{ {H}, b }", ""),
    ("xor-block", "min x", "xor{ b, {H} }", ""),
    ("sum-iterator", "min sum(k in {H}) { x }", "x >= 0", ""),
    ("sum-range-to", "min sum(k in 0..{H}) { x }", "x >= 0", ""),
    ("sum-range-from", "min sum(k in {H}..3) { x }", "x >= 0", ""),
    ("sum-range-inclusive", "min sum(k in 0..={H}) { x }", "x >= 0", ""),
    ("sum-tuple2-iterator", "min sum((p, q) in {H}) { x }", "x >= 0", ""),
    ("sum-tuple3-iterator", "min sum((p, q, r) in {H}) { x }", "x >= 0", ""),
    ("sum-body", "min sum(k in 0..2) { {H} }", "x >= 0", ""),
    ("sum-body-uses-iter", "min sum(k in 0..2) { k * {H} }", "x >= 0", ""),
    ("prod-body", "min prod(k in 1..3) { {H} } * x", "x >= 0", ""),
    ("all-scoped-body", "min x", "all(k in 0..2) { {H} }", ""),
    ("max-scoped-body", "min max(k in 0..2) { {H} }", "x >= 0", ""),
    ("compound-index", "min y_{ {H} }", "x >= 0", ""),
    ("compound-index-plain", "min x", "y_{H} >= 0", ""),
    ("array-index", "min x", "x >= A[{H}]", ""),
    ("matrix-index-1", "min x", "x >= M[{H}][0]", ""),
    ("matrix-index-2", "min x", "x >= M[0][{H}]", ""),
    ("len-arg", "min x", "x >= len({H})", ""),
    ("enumerate-arg", "min sum((v, k) in enumerate({H})) { x }", "x >= 0", ""),
    ("zip-arg-1", "min sum((p, q) in zip({H}, A)) { x }", "x >= 0", ""),
    ("zip-arg-2", "min sum((p, q) in zip(A, {H})) { x }", "x >= 0", ""),
    ("union-arg", "min sum(v in union({H}, A)) { x }", "x >= 0", ""),
    ("intersection-arg", "min sum(v in intersection(A, {H})) { x }", "x >= 0", ""),
    ("difference-arg", "min sum(v in difference({H}, A)) { x }", "x >= 0", ""),
    ("union-arg-2", "min sum(v in union(A, {H})) { x }", "x >= 0", ""),
    ("intersection-arg-1", "min sum(v in intersection({H}, A)) { x }", "x >= 0", ""),
    ("difference-arg-2", "min sum(v in difference(A, {H})) { x }", "x >= 0", ""),
    ("range-fn-to", "min sum(k in range(0, {H}, false)) { x }", "x >= 0", ""),
    ("enum-shorthand-arg", "min sum((v, k) in enum({H})) { x }", "x >= 0", ""),
    ("E-shorthand-arg", "min sum((u, w) in E({H})) { x }", "x >= 0", ""),
    ("V-shorthand-arg", "min sum(nd in V({H})) { x }", "x >= 0", ""),
    ("N-shorthand-arg", "min sum(ed in N({H})) { x }", "x >= 0", ""),
    ("N_of-shorthand-arg-1", "min sum(ed in N_of({H}, G)) { x }", "x >= 0", ""),
    ("N_of-shorthand-arg-2", "min sum(ed in N_of(\"P\", {H})) { x }", "x >= 0", ""),
    ("edges-arg", "min sum((u, w) in edges({H})) { x }", "x >= 0", ""),
    ("nodes-arg", "min sum(nd in nodes({H})) { x }", "x >= 0", ""),
    ("neigh-edges-arg", "min sum(ed in neigh_edges({H})) { x }", "x >= 0", ""),
    ("neigh-edges-of-arg-1", "min sum(ed in neigh_edges_of({H}, G)) { x }", "x >= 0", ""),
    ("neigh-edges-of-arg-2", "min sum(ed in neigh_edges_of(\"P\", {H})) { x }", "x >= 0", ""),
    ("range-fn-arg", "min sum(k in range({H}, 3, true)) { x }", "x >= 0", ""),
    ("range-fn-flag", "min sum(k in range(0, 3, {H})) { x }", "x >= 0", ""),
    ("unknown-function", "min x", "x >= foo({H})", ""),
    ("constraint-iteration", "min x", "x >= 0 for k in {H}", ""),
    ("constraint-iteration-tuple", "min x", "x >= p for (p, q) in {H}", ""),
    ("constraint-name-index", "min x", "c_{ {H} }: x >= 0", ""),
    ("declaration-iteration", "min x", "x >= 0", "    w_k as Real for k in {H}\n"),
    ("declaration-bound-lo", "min x", "x >= 0", "    w as Real({H}, 40)\n"),
    ("declaration-bound-hi", "min x", "x >= 0", "    w as NonNegativeReal(0, {H})\n"),
    ("declaration-int-bound", "min x", "x >= 0", "    w as IntegerRange({H}, 30)\n"),
    ("declaration-one-bound-real", "min x", "x >= 0", "    w as Real({H})\n"),
    ("declaration-one-bound-nonneg", "min x", "x >= 0", "    w as NonNegativeReal({H})\n"),
    ("declaration-int-bound-hi", "min x", "x >= 0", "    w as IntegerRange(0, {H})\n"),
    ("constant-value", "min x", "x >= 0", "LET kk = {H}\n"),
    ("constant-in-expression", "min x", "x >= kk", "LET kk = {H} + 1\n"),
    ("constant-len", "min x", "x >= kk", "LET kk = len({H})\n"),
];

/// scoped templates: bind node / edge / tuple / iterator variables, hole takes scoped atoms too
const SCOPED_TEMPLATES: [(&str, &str, &str); 8] = [
    ("scoped-operand", "min sum(nd in nodes(G), ed in edges(G), tp in enumerate(A), k in 0..2, v in A) { {H} * x }", "x >= 0"),
    ("scoped-index", "min x", "y_{ {H} } >= 0 for nd in nodes(G), ed in edges(G), tp in enumerate(A), k in 0..2, v in A"),
    ("scoped-neigh", "min sum(nd in nodes(G), ed in edges(G), tp in enumerate(A), k in 0..2, v in A) { sum(z in neigh_edges({H})) { x } }", "x >= 0"),
    ("scoped-len", "min sum(nd in nodes(G), ed in edges(G), tp in enumerate(A), k in 0..2, v in A) { len({H}) * x }", "x >= 0"),
    ("scoped-array-index", "min sum(nd in nodes(G), ed in edges(G), tp in enumerate(A), k in 0..2, v in A) { A[{H}] * x }", "x >= 0"),
    ("scoped-destructure", "min sum(nd in nodes(G), ed in edges(G), tp in enumerate(A), k in 0..2, v in A) { sum((p, q) in {H}) { x } }", "x >= 0"),
    ("scoped-logic", "min x", "all(nd in nodes(G), ed in edges(G), tp in enumerate(A), k in 0..2, v in A) { {H} or b }"),
    ("scoped-shadow", "min sum(A in 0..2) { {H} * x }", "x >= 0"),
];

/// arity templates (no hole): wrong number of arguments for every builtin
const ARITY: [(&str, &str); 22] = [
    ("len-0", "len()"),
    ("len-2", "len(A, A)"),
    ("enumerate-0", "len(enumerate())"),
    ("enumerate-2", "len(enumerate(A, A))"),
    ("zip-1", "len(zip(A))"),
    ("zip-3", "len(zip(A, B, A))"),
    ("zip-0", "len(zip())"),
    ("union-1", "len(union(A))"),
    ("union-3", "len(union(A, B, A))"),
    ("intersection-1", "len(intersection(A))"),
    ("difference-3", "len(difference(A, B, A))"),
    ("edges-0", "len(edges())"),
    ("edges-2", "len(edges(G, G))"),
    ("nodes-0", "len(nodes())"),
    ("nodes-2", "len(nodes(G, G))"),
    ("neigh-edges-0", "len(neigh_edges())"),
    ("neigh-edges-of-1", "len(neigh_edges_of(\"P\"))"),
    ("neigh-edges-of-3", "len(neigh_edges_of(\"P\", G, G))"),
    ("range-2", "len(range(0, 3))"),
    ("range-4", "len(range(0, 3, true, 1))"),
    ("unknown-0", "foo()"),
    ("shorthand-E-0", "len(E())"),
];

/// two-hole templates (thorough)
const TEMPLATES2: [(&str, &str, &str, &str); 12] = [
    ("add", "min x", "{H1} + {H2} >= 0", ""),
    ("mul", "min x", "{H1} * {H2} >= 0", ""),
    ("div", "min x", "{H1} / {H2} >= 0", ""),
    ("and", "min x", "{H1} and {H2}", ""),
    ("implies", "min x", "{H1} implies {H2}", ""),
    ("zip", "min sum((p, q) in zip({H1}, {H2})) { x }", "x >= 0", ""),
    ("range", "min sum(k in {H1}..{H2}) { x }", "x >= 0", ""),
    ("union", "min sum(v in union({H1}, {H2})) { x }", "x >= 0", ""),
    ("neigh-edges-of", "min sum(ed in neigh_edges_of({H1}, {H2})) { x }", "x >= 0", ""),
    ("sum-iterator-body", "min sum(k in {H1}) { {H2} }", "x >= 0", ""),
    ("declaration-bounds", "min x", "x >= 0", "    w as Real({H1}, {H2})\n"),
    ("max-block", "min max{ {H1}, {H2} }", "x >= 0", ""),
];


/// family T7: the order in which iteration sets bind their variables. Iterator expressions that mention the
/// variable of a LATER set (`j`), of their OWN set (`i`), or of an earlier set (`h`, the legal case)
const ORDER_ITERS: [(&str, &str); 17] = [
    ("later:range-end", "0..j"),
    ("later:range-start", "j..3"),
    ("later:range-end-arith", "0..j + 1"),
    ("later:range-end-len-minus", "0..len(A) - j"),
    ("later:range-end-array-item", "0..A[j]"),
    ("later:range-call", "range(0, j, true)"),
    ("later:matrix-row", "M[j]"),
    ("later:enumerate-row", "enumerate(M[j])"),
    ("own:range-end", "0..i"),
    ("own:range-start", "i..3"),
    ("own:range-end-array-item", "0..A[i]"),
    ("own:matrix-row", "M[i]"),
    ("earlier:range-end", "0..h + 1"),
    ("earlier:matrix-row", "M[h]"),
    ("earlier:range-end-array-item", "0..A[h]"),
    ("outer-then-later:range", "h..j"),
    ("plain:range", "0..2"),
];
const ORDER_SHAPES: [(&str, &str, &str, &str); 14] = [
    ("sum", "min sum(h in 0..2, i in {E}, j in 0..2) { x }", "x >= 0", ""),
    ("prod", "min x * prod(h in 0..2, i in {E}, j in 0..2) { 2 }", "x >= 0", ""),
    ("min-block", "min min(h in 0..2, i in {E}, j in 0..2) { x + 1 }", "x >= 0", ""),
    ("max-block", "min max(h in 0..2, i in {E}, j in 0..2) { x + 1 }", "x >= 0", ""),
    ("avg-block", "min avg(h in 0..2, i in {E}, j in 0..2) { x }", "x >= 0", ""),
    ("all-block", "min x", "all(h in 0..2, i in {E}, j in 0..2) { b }", ""),
    ("any-block", "min x", "any(h in 0..2, i in {E}, j in 0..2) { b }", ""),
    ("constraint-for", "min x", "x >= 0 for h in 0..2, i in {E}, j in 0..2", ""),
    ("declaration-for", "min x", "x >= 0", "    z_h as Real(0, 1) for h in 0..2, i in {E}, j in 0..2\n"),
    ("block-nested-in-block", "min sum(h in 0..2) { sum(i in {E}, j in 0..2) { x } }", "x >= 0", ""),
    ("block-in-constraint-for", "min x", "sum(i in {E}, j in 0..2) { x } >= 0 for h in 0..2", ""),
    ("two-sets-only", "min sum(i in {E}, j in 0..2) { x } + sum(h in 0..1) { x }", "x >= 0", ""),
    ("later-set-destructured", "min sum(h in 0..2, i in {E}, (j, w) in enumerate(A)) { x }", "x >= 0", ""),
    ("single-set", "min sum(i in {E}) { x } + sum(h in 0..1, j in 0..1) { x }", "x >= 0", ""),
];

/// every (template x atom), scoped and binding-order program of this engine, for the totality check of C18:
/// well-typed or not, each is an input the whole pipeline has to answer without panicking
pub fn programs_for_totality() -> Vec<(String, String)> {
    let mut out = vec![];
    for (tname, obj, cons, extra) in TEMPLATES {
        for (aname, atext) in ATOMS.iter().chain(WRAP_ATOMS.iter()) {
            out.push((format!("typed-hole:{tname}:{aname}"), program(&obj.replace("{H}", atext), &cons.replace("{H}", atext), &extra.replace("{H}", atext))));
        }
    }
    for (tname, obj, cons) in SCOPED_TEMPLATES.iter() {
        for (aname, atext) in ATOMS.iter().chain(SCOPED_ATOMS.iter()) {
            out.push((format!("typed-hole:{tname}:{aname}"), program(&obj.replace("{H}", atext), &cons.replace("{H}", atext), "")));
        }
    }
    for (sname, obj, cons, extra) in ORDER_SHAPES.iter() {
        for (ename, etext) in ORDER_ITERS.iter() {
            out.push((format!("binding-order:{sname}:{ename}"), program(&obj.replace("{E}", etext), &cons.replace("{E}", etext), &extra.replace("{E}", etext))));
        }
    }
    for (name, call) in ARITY.iter() {
        out.push((format!("arity:{name}"), program("min x", &format!("x >= {call}"), "")));
    }
    // literal indexes of compound names and of row names at and beyond the integer widths
    for idx in ["2147483648", "4294967296", "9223372036854775807", "9223372036854775808", "18446744073709551615", "18446744073709551616", "99999999999999999999999", "340282366920938463463374607431768211456", "007", "0"] {
        out.push((format!("compound-index-extreme:{idx}"), program(&format!("min y_{idx} + x"), "x >= 0", "")));
        out.push((format!("row-name-index-extreme:{idx}"), program("min x", &format!("cap_{idx}: x >= 0"), "")));
        out.push((format!("array-index-extreme:{idx}"), program("min x", &format!("x >= A[{idx}]"), "")));
        out.push((format!("declared-index-extreme:{idx}"), program("min x", "x >= 0", &format!("    w_{idx} as Boolean\n"))));
        out.push((format!("constant-arithmetic-extreme:{idx}"), program("min x", "x >= 0", &format!("LET kk = 0 - (0 - {idx} - 1)\n"))));
        out.push((format!("constant-negation-extreme:{idx}"), program("min x", "x >= 0", &format!("LET kk = -(0 - {idx} - 1)\n"))));
        out.push((format!("constant-negation-in-row-extreme:{idx}"), program("min x", &format!("x >= -(0 - {idx} - 1) - {idx}"), "")));
        out.push((format!("constant-product-extreme:{idx}"), program("min x", "x >= 0", &format!("LET kk = {idx} * {idx}\n"))));
    }
    out
}

fn program(objective: &str, constraints: &str, extra: &str) -> String {
    let (lets, defs): (String, String) = if let Some(rest) = extra.strip_prefix("LET ") { (format!("    let {rest}"), String::new()) } else { (String::new(), extra.to_string()) };
    format!("{objective}\ns.t.\n    {constraints}\n{PRELUDE_WHERE}{lets}{PRELUDE_DEFINE}{defs}")
}

fn error_kind(e: &TransformError) -> (String, bool) {
    // (kind name, is type-class)
    let base = e.base_error();
    match base {
        TransformError::UndeclaredVariable(_) => ("UndeclaredVariable".into(), true),
        // the family exists, the addressed member does not: depends on the index value
        TransformError::UndeclaredVariableDomain(_) => ("UndeclaredVariableDomain".into(), false),
        TransformError::AlreadyDeclaredVariable(_) => ("AlreadyDeclaredVariable".into(), false),
        TransformError::AlreadyDeclaredDomainVariable(_) => ("AlreadyDeclaredDomainVariable".into(), false),
        TransformError::OutOfBounds(_) => ("OutOfBounds".into(), false),
        TransformError::WrongArgument { .. } => ("WrongArgument".into(), true),
        TransformError::WrongExpectedArgument { .. } => ("WrongExpectedArgument".into(), true),
        TransformError::SpannedError { .. } => ("SpannedError".into(), false),
        TransformError::NonExistentFunction(_) => ("NonExistentFunction".into(), true),
        TransformError::WrongFunctionSignature { .. } => ("WrongFunctionSignature".into(), true),
        TransformError::WrongNumberOfArguments { .. } => ("WrongNumberOfArguments".into(), true),
        TransformError::BinOpError { operator, lhs, rhs } => {
            // division by zero and integer overflow surface as BinOpError between numeric kinds
            let numeric = |k: &rooc::PrimitiveKind| k.is_numeric();
            let data_dependent = numeric(lhs) && numeric(rhs) && matches!(operator, rooc::BinOp::Div | rooc::BinOp::Add | rooc::BinOp::Sub | rooc::BinOp::Mul);
            (format!("BinOpError({:?},{},{})", operator, lhs, rhs), !data_dependent)
        }
        TransformError::UnOpError { operator, exp } => {
            let data_dependent = exp.is_numeric() && matches!(operator, rooc::UnOp::Neg);
            (format!("UnOpError({:?},{})", operator, exp), !data_dependent)
        }
        TransformError::Unspreadable(_) => ("Unspreadable".into(), true),
        TransformError::SpreadError { .. } => ("SpreadError".into(), true),
        TransformError::AlreadyDefined { .. } => ("AlreadyDefined".into(), false),
        TransformError::TooLarge { .. } => ("TooLarge".into(), false),
        TransformError::Other(msg) => {
            let m = msg.to_lowercase();
            // values only known at run time: bound order / sign, arity of blocks is checked statically
            if m.contains("domain variable and cannot be used") {
                ("Other(domain variable used as a value)".into(), true)
            } else if m.contains("block takes exactly") {
                ("Other(block arity)".into(), true)
            } else {
                (format!("Other({})", msg.chars().take(40).collect::<String>()), false)
            }
        }
    }
}

/// type class of an atom, used in signatures so that inputs with the same root cause share one entry
fn atom_class(atom: &str) -> String {
    atom.split('+')
        .map(|a| match a {
            "domain-var" | "bool-domain-var" | "compound-var" => "domain-variable",
            "float" | "float-const" | "infinity" => "non-integer-number",
            "neg-int" => "negative-integer",
            "int" | "zero" | "int-const" | "array-element" | "len-call" | "range-expr" | "iter-int" | "iter-elem" => "integer",
            "edge-weight" => "non-integer-number",
            "string" | "string-const" | "node-var" | "edge-endpoint" | "string-elem" => "string-or-node",
            "bool" | "bool-const" | "bool-elem" => "boolean",
            "num-array" | "num-array-literal" | "empty-array" | "array-row" | "shadowed-const" | "row-elem" => "number-array",
            "nested-array" | "string-array" | "bool-array" | "mixed-array" | "mixed-array-literal" | "mixed-matrix" => "other-array",
            "edges-call" | "enumerate-call" => "tuple-iterable",
            "nodes-call" => "node-iterable",
            "undeclared" | "undeclared-compound" => "undeclared",
            "constant-block" | "constant-scoped-block" => "block-over-constants",
            "bool-and-number" | "number-or-bool" | "bool-plus-number" | "string-plus-number" | "not-number" => "mixed-kind-operation",
            other => other,
        })
        .collect::<Vec<_>>()
        .join("+")
}

/// syntactic position class of a template (the call site of a soundness gap)
fn position_class(template: &str) -> &str {
    match template {
        "array-index" | "matrix-index-1" | "matrix-index-2" | "scoped-array-index" => "array-index",
        "sum-range-to" | "sum-range-from" | "sum-range-inclusive" | "range" | "range-fn-arg" | "range-fn-to" | "range-fn-flag" => "range-end",
        "compound-index" | "compound-index-plain" | "scoped-index" | "constraint-name-index" => "compound-index",
        "declaration-bound-lo" | "declaration-bound-hi" | "declaration-int-bound" | "declaration-bounds" | "declaration-one-bound-real" | "declaration-one-bound-nonneg" | "declaration-int-bound-hi" => "declaration-bound",
        "constant-value" | "constant-in-expression" | "constant-len" => "constant-value",
        other => other,
    }
}

/// the atom class that explains an error kind, when several holes are filled
fn offending_class(kind: &str, atoms: &str) -> String {
    let classes = atom_class(atoms);
    let parts: Vec<&str> = classes.split('+').collect();
    if parts.len() == 1 {
        return classes;
    }
    let pick = |wanted: &[&str]| wanted.iter().find(|w| parts.contains(w)).map(|w| w.to_string());
    let chosen = if kind.starts_with("Other(domain variable") || kind.starts_with("UndeclaredVariable") {
        pick(&["domain-variable", "undeclared"])
    } else if kind.starts_with("WrongArgument") {
        pick(&["block-over-constants", "non-integer-number", "negative-integer", "string-or-node", "boolean"])
    } else {
        None
    };
    chosen.unwrap_or(classes)
}

fn check_program(src: &str, template: &str, atoms: &str, l: &mut Local) {
    let fns = IndexMap::new();
    let case = |what: String| json!({"source": src, "template": template, "atoms": atoms, "what": what});
    let pm = match crate::core::catch(|| RoocParser::new(src.to_string()).parse()) {
        Err(p) => {
            l.violation(format!("panic:parse:{template}"), p.clone(), case(p));
            return;
        }
        Ok(Err(_)) => {
            l.count("does-not-parse");
            return;
        }
        Ok(Ok(pm)) => pm,
    };
    l.count("parsed");
    let tc = match crate::core::catch(|| pm.create_type_checker(&vec![], &fns).map(|_| ())) {
        Err(p) => {
            l.violation(format!("panic:type_check:{template}"), p.clone(), case(p));
            return;
        }
        Ok(r) => r,
    };
    l.sample(|| json!({"source": src, "template": template, "atoms": atoms, "type_check": tc.is_ok()}));
    if let Err(e) = tc {
        l.count("type_check:rejected");
        l.count(&format!("rejected-kind:{}", error_kind(&e).0.split('(').next().unwrap_or("")));
        return;
    }
    l.count("type_check:accepted");
    l.nontrivial(&src.to_string());
    match crate::core::catch(|| pm.clone().transform(vec![], &fns)) {
        Err(p) => l.violation(format!("panic:transform:{template}"), p.clone(), case(p)),
        Ok(Ok(_)) => l.count("accepted:transform-ok"),
        Ok(Err(e)) => {
            let (kind, type_class) = error_kind(&e);
            if type_class {
                l.violation(format!("accepted-but-{kind}:{}:{}", position_class(template), offending_class(&kind, atoms)), format!("type checker accepts, transform fails with the type-class error {kind}: {}", e.to_string().lines().next().unwrap_or("")), case(e.to_string()));
            } else {
                l.count(&format!("accepted:data-dependent-error:{}", if kind.starts_with("Other(") { kind.as_str() } else { kind.split('(').next().unwrap_or("") }));
            }
        }
    }
}

pub fn run(mut run: Run) -> ! {
    crate::core::silence_panics();
    let quick = run.quick();
    run.rule = format!("every (template x atom) program: {} single-hole templates covering every operand, block, scoped-block body, iterator, range end, destructuring, index, function-argument, declaration-bound, declaration-iterator, constraint-iterator, constraint-name and constant position x 40 typed atoms (incl. operations between constants of different kinds) (numbers, booleans, strings, arrays of every element kind, graph, constants, calls, domain variables, undeclared names, blocks over constants); 8 scoped templates x (40 + 6 scoped atoms: node, edge, tuple, iterator, element, shadowed constant); the single-hole templates again wrapped in an iteration scope x 10 iteration-only atoms (node, edge, edge endpoint, edge weight, enumerate tuple, string element, boolean element, matrix row, range variable, array element); 22 wrong-arity calls; 12 two-hole templates x all atom pairs; 14 scoping shapes (every scoped block kind, constraint and declaration iterations, nested scopes) x 17 iterator expressions that mention the variable of a later set, of their own set, of an earlier set or of no set; thorough: the two-hole templates inside the iteration scope x all pairs of the 40 plain and iteration-only atoms; distinct = accepted program texts; non-trivial = accepted by the type checker", TEMPLATES.len());
    run.assume("type-class error kinds: UndeclaredVariable, WrongArgument, WrongExpectedArgument, WrongFunctionSignature, WrongNumberOfArguments, NonExistentFunction, Unspreadable, SpreadError, UnOpError, BinOpError unless both operands are numeric kinds (division by zero / overflow), Other(domain variable used as a value), Other(block arity)");
    run.family("T1-single-hole", (TEMPLATES.len() * ATOMS.len()) as u64, |i, l| {
        let (tname, obj, cons, extra) = TEMPLATES[i as usize / ATOMS.len()];
        let (aname, atext) = ATOMS[i as usize % ATOMS.len()];
        let src = program(&obj.replace("{H}", atext), &cons.replace("{H}", atext), &extra.replace("{H}", atext));
        check_program(&src, tname, aname, l);
    });
    let all_scoped: Vec<(&str, &str)> = ATOMS.iter().chain(SCOPED_ATOMS.iter()).cloned().collect();
    let n_sc = all_scoped.len();
    run.family("T2-scoped", (SCOPED_TEMPLATES.len() * n_sc) as u64, move |i, l| {
        let (tname, obj, cons) = SCOPED_TEMPLATES[i as usize / n_sc];
        let (aname, atext) = all_scoped[i as usize % n_sc];
        let src = program(&obj.replace("{H}", atext), &cons.replace("{H}", atext), "");
        check_program(&src, tname, aname, l);
    });
    // every single-hole template again, inside a scope that binds iteration-only kinds
    run.family("T5-wrapped-in-scope", (TEMPLATES.len() * WRAP_ATOMS.len()) as u64, |i, l| {
        let (tname, obj, cons, extra) = TEMPLATES[i as usize / WRAP_ATOMS.len()];
        let (aname, atext) = WRAP_ATOMS[i as usize % WRAP_ATOMS.len()];
        if extra.contains("{H}") {
            // the hole is in a declaration or a constant: no iteration scope can reach it
            l.count("wrap-not-applicable");
            return;
        }
        let (obj, cons) = if obj.contains("{H}") {
            (format!("min sum({WRAP_SCOPE}) {{ {} }}", obj.strip_prefix("min ").unwrap().replace("{H}", atext)), cons.to_string())
        } else if let Some((head, tail)) = cons.split_once(" for ") {
            (obj.to_string(), format!("{} for {WRAP_SCOPE}, {}", head.replace("{H}", atext), tail.replace("{H}", atext)))
        } else {
            (obj.to_string(), format!("{} for {WRAP_SCOPE}", cons.replace("{H}", atext)))
        };
        let src = program(&obj, &cons, extra);
        check_program(&src, tname, aname, l);
    });
    run.family("T3-arity", ARITY.len() as u64, |i, l| {
        let (name, call) = ARITY[i as usize];
        let src = program("min x", &format!("x >= {call}"), "");
        check_program(&src, "arity", name, l);
    });
    {
        let n = ATOMS.len();
        run.family("T4-two-holes", (TEMPLATES2.len() * n * n) as u64, move |i, l| {
            let i = i as usize;
            let (tname, obj, cons, extra) = TEMPLATES2[i / (n * n)];
            let (a1, t1) = ATOMS[(i / n) % n];
            let (a2, t2) = ATOMS[i % n];
            let f = |s: &str| s.replace("{H1}", t1).replace("{H2}", t2);
            let src = program(&f(obj), &f(cons), &f(extra));
            check_program(&src, tname, &format!("{a1}+{a2}"), l);
        });
    }
    if !quick {
        // two holes inside the iteration scope: every pair over the plain and the iteration-only atoms
        let all: Vec<(&str, &str)> = ATOMS.iter().chain(WRAP_ATOMS.iter()).cloned().collect();
        let n = all.len();
        run.family("T6-two-holes-wrapped-in-scope", (TEMPLATES2.len() * n * n) as u64, move |i, l| {
            let i = i as usize;
            let (tname, obj, cons, extra) = TEMPLATES2[i / (n * n)];
            let (a1, t1) = all[(i / n) % n];
            let (a2, t2) = all[i % n];
            if extra.contains("{H") {
                l.count("wrap-not-applicable");
                return;
            }
            let f = |s: &str| s.replace("{H1}", t1).replace("{H2}", t2);
            let (obj, cons) = if obj.contains("{H") {
                (format!("min sum({WRAP_SCOPE}) {{ {} }}", f(obj.strip_prefix("min ").unwrap())), cons.to_string())
            } else {
                (obj.to_string(), format!("{} for {WRAP_SCOPE}", f(cons)))
            };
            let src = program(&obj, &cons, extra);
            check_program(&src, tname, &format!("{a1}+{a2}"), l);
        });
    }
    run.family("T7-binding-order-of-iteration-sets", (ORDER_SHAPES.len() * ORDER_ITERS.len()) as u64, |i, l| {
        let (sname, obj, cons, extra) = ORDER_SHAPES[i as usize / ORDER_ITERS.len()];
        let (ename, etext) = ORDER_ITERS[i as usize % ORDER_ITERS.len()];
        let src = program(&obj.replace("{E}", etext), &cons.replace("{E}", etext), &extra.replace("{E}", etext));
        check_program(&src, &format!("order:{sname}"), ename, l);
    });
    run.require("type_check:accepted");
    run.require("type_check:rejected");
    run.require("accepted:transform-ok");
    run.finish()
}
