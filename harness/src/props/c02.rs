//! C02 — linearization preserves objective values and optima.
use crate::core::{Digits, Local, Run};
use crate::exact::{self, LpResult, Q, Rel, q};
use crate::linsem::*;
use crate::lm::{Dom, Sense};
use crate::props::c01::{CTX_NAMES, Case, cores, ctx, drop_unreferenced, grid, is_inexact, lowering_features};
use crate::refsem::{Env, eval};
use num_traits::{Signed, Zero};
use rooc::BinOp;
use rooc::model_transformer::Exp;
use serde_json::json;

fn decls2() -> Vec<(&'static str, Vec<(String, Dom)>)> {
    let bc = |d: Dom| vec![("b".to_string(), Dom::Bool), ("c".to_string(), Dom::Bool), ("x".to_string(), d)];
    vec![("x:Real(-3,3)", bc(Dom::Real(-3.0, 3.0))), ("x:NonNeg(0,4)", bc(Dom::NonNegB(0.0, 4.0))), ("x:Int(-2,2)", bc(Dom::Int(-2, 2))), ("x:Real(-1.5,0.5)", bc(Dom::Real(-1.5, 0.5))), ("x:Real-unbounded", bc(Dom::Free)), ("x:NonNeg-unbounded", bc(Dom::NonNeg)), ("x:Real(-inf,2)", bc(Dom::Real(f64::NEG_INFINITY, 2.0)))]
}

fn extra_constraints() -> Vec<(&'static str, Vec<SrcCons>)> {
    let row = |lhs: Exp, rel: Rel, rhs: f64| SrcCons { lhs, rel, rhs: num(rhs), bare: false, name: String::new() };
    vec![
        ("none", vec![]),
        ("x>=-1", vec![row(var("x"), Rel::Ge, -1.0)]),
        ("abs{x}>=1", vec![row(Exp::Abs(var("x").to_box()), Rel::Ge, 1.0)]),
        ("x+b<=1.5", vec![row(bin(BinOp::Add, var("x"), var("b")), Rel::Le, 1.5)]),
        ("max{x,0}>=0.5", vec![row(Exp::Max(vec![var("x"), num(0.0)]), Rel::Ge, 0.5)]),
        ("min{x,1}<=0.5", vec![row(Exp::Min(vec![var("x"), num(1.0)]), Rel::Le, 0.5)]),
        ("b or c", vec![SrcCons { lhs: Exp::Or(vec![var("b"), var("c")]), rel: Rel::Eq, rhs: num(1.0), bare: true, name: String::new() }]),
    ]
}

fn family_size(depth: usize, quick: bool) -> u64 {
    let nctx: u64 = (0..=depth as u32).map(|k| (CTX_NAMES.len() as u64 - 1).pow(k)).sum();
    let (nd, ne) = if quick { (3, 3) } else { (decls2().len() as u64, extra_constraints().len() as u64) };
    cores().len() as u64 * nctx * 2 * nd * ne
}

fn family(i: u64, depth: usize, quick: bool) -> Case {
    let cs = cores();
    let ds: Vec<_> = if quick { decls2().into_iter().enumerate().filter(|(k, _)| [0, 2, 4].contains(k)).map(|(_, d)| d).collect() } else { decls2() };
    let es: Vec<_> = if quick { extra_constraints().into_iter().take(3).collect() } else { extra_constraints() };
    let mut d = Digits(i);
    let sense = if d.pick(2) == 0 { Sense::Min } else { Sense::Max };
    let (dname, vars) = d.of(&ds).clone();
    let (ename, cons) = d.of(&es).clone();
    let (cname, core) = d.of(&cs).clone();
    let nper = CTX_NAMES.len() as u64 - 1;
    let mut rest = d.0;
    let mut len = 0usize;
    let mut count = 1u64;
    while len < depth && rest >= count {
        rest -= count;
        count *= nper;
        len += 1;
    }
    let mut e = core;
    let mut names = vec![];
    let mut r = rest;
    for _ in 0..len {
        let k = (r % nper) as usize + 1;
        r /= nper;
        e = ctx(k, e);
        names.push(CTX_NAMES[k]);
    }
    Case { model: SrcModel { vars, cons, sense, obj: e }, signature: format!("{:?} core={cname} ctx=[{}] decl={dname} with={ename}", sense, names.join(",")) }
}

/// objectives over three variables with different ranges (x decided on the real line, w and y on grid lines)
pub fn family_d_size(depth: usize) -> u64 {
    let nctx: u64 = if depth == 0 { 1 } else { CTX_NAMES.len() as u64 };
    crate::props::c01::cores_d().len() as u64 * nctx * 2 * 2 * 2
}
pub fn family_d(i: u64, depth: usize) -> Case {
    let cs = crate::props::c01::cores_d();
    let mut d = Digits(i);
    let sense = if d.pick(2) == 0 { Sense::Min } else { Sense::Max };
    let int_y = d.pick(2) == 1;
    let with_row = d.pick(2) == 1;
    let k = if depth == 0 { 0 } else { d.pick(CTX_NAMES.len()) };
    let (cname, core) = d.of(&cs).clone();
    let vars = vec![("x".to_string(), Dom::Real(-3.0, 3.0)), ("w".to_string(), Dom::Real(2.0, 4.0)), ("y".to_string(), if int_y { Dom::Int(-1, 2) } else { Dom::Real(-1.0, 2.5) })];
    let cons = if with_row { vec![SrcCons { lhs: bin(BinOp::Add, var("x"), var("y")), rel: Rel::Le, rhs: num(2.0), bare: false, name: String::new() }] } else { vec![] };
    Case { model: SrcModel { vars, cons, sense, obj: ctx(k, core) }, signature: format!("{:?} multi core={cname} ctx=[{}] y={} row={with_row}", sense, CTX_NAMES[k], if int_y { "int" } else { "real" }) }
}

/// does the union of the closed intervals cover [p, q]?
fn covers(ivs: &[(Option<Q>, Option<Q>)], p: &Q, q_: &Q) -> bool {
    let mut frontier = p.clone();
    let mut contains_p = false;
    loop {
        let mut progress = false;
        for (lo, hi) in ivs {
            let lo_ok = lo.as_ref().map(|l| l <= &frontier).unwrap_or(true);
            if !lo_ok {
                continue;
            }
            match hi {
                None => return true,
                Some(h) => {
                    if h >= &frontier {
                        contains_p = true;
                        if h > &frontier {
                            frontier = h.clone();
                            progress = true;
                        }
                    }
                }
            }
        }
        if &frontier >= q_ && contains_p {
            return true;
        }
        if !progress {
            return false;
        }
    }
}

pub fn family_size_pub(depth: usize, quick: bool) -> u64 {
    family_size(depth, quick)
}
pub fn family_pub(i: u64, depth: usize, quick: bool) -> Case {
    family(i, depth, quick)
}

fn check_case(case: &Case, l: &mut Local) {
    let case = &drop_unreferenced(case);
    let m = &case.model;
    let lm = match crate::core::catch(|| m.compile()) {
        Err(p) => {
            l.violation(format!("panic:{}", case.signature), format!("linearize panicked: {p}"), json!({"model": m.show()}));
            return;
        }
        Ok(Err(e)) => {
            let kind = format!("{:?}", e);
            l.count(&format!("rejected:{}", kind.split(|c: char| c == '(' || c == ' ' || c == '{').next().unwrap_or("")));
            return;
        }
        Ok(Ok(lm)) => lm,
    };
    l.count("compiled");
    let Some(comp) = Compiled::new(&lm, m) else { return };
    lowering_features(&comp, l);
    if is_inexact(m) {
        l.count("skipped:inexact-regime");
        return;
    }
    if !comp.aux.is_empty() {
        l.nontrivial(&m.show());
    }
    l.sample(|| json!({"model": m.show(), "linear": comp.spec.show(), "signature": case.signature}));
    let in_lm = |n: &str| comp.declared.iter().any(|d| d.0 == n);
    let cont: Vec<String> = m.continuous_vars().iter().map(|&i| m.vars[i].0.clone()).collect();
    let x = cont.iter().find(|n| in_lm(n)).cloned();
    if let Some(x) = &x {
        let under = m.cons.iter().any(|c| occurs_under_logic(&c.lhs, x, false) || occurs_under_logic(&c.rhs, x, false)) || occurs_under_logic(&m.obj, x, false);
        if under {
            l.count("skipped:continuous-variable-under-logic-operator");
            return;
        }
    }
    let minimize = m.sense == Sense::Min;
    let dir = if minimize { "min" } else { "max" };
    let case_json = |env: &Env, what: String| json!({"model": m.show(), "linear": comp.spec.show(), "assignment": env.iter().map(|(k, v)| format!("{k}={v}")).collect::<Vec<_>>(), "what": what, "signature": case.signature});
    // whole-model status and optimum of the source, collected from the cells (exact when the only
    // continuous variable is x: the source is affine on every cell and on the two outer rays)
    let mut src_best: Option<Q> = None;
    let mut src_unbounded = false;
    let better_q = |a: &Q, b: &Q| if minimize { a < b } else { a > b };
    let mut note = |v: Q, best: &mut Option<Q>| {
        if best.as_ref().map(|b| better_q(&v, b)).unwrap_or(true) {
            *best = Some(v);
        }
    };
    let x_dom_unbounded = |side_hi: bool| -> bool {
        let Some(x) = &x else { return false };
        let (lo, hi) = m.vars.iter().find(|v| &v.0 == x).map(|v| v.1.bounds()).unwrap_or((0.0, 0.0));
        if side_hi { hi == f64::INFINITY } else { lo == f64::NEG_INFINITY }
    };
    for d in discrete_assignments(m, x.as_deref(), &grid()) {
        let fixed: Env = d.iter().filter(|(k, _)| in_lm(k)).map(|(k, v)| (k.clone(), v.clone())).collect();
        match &x {
            None => {
                if m.sat(&d) != Ok(true) {
                    continue;
                }
                let Ok(f) = eval(&m.obj, &d) else { continue };
                note(f.clone(), &mut src_best);
                let mut lp = comp.lp_with(&fixed);
                lp.maximize = !minimize;
                l.count("cells_checked");
                match exact::solve_milp(&lp) {
                    LpResult::Optimal { value, .. } => {
                        if value != f {
                            l.violation(format!("C02:objective-differs:{}", case.signature), format!("best linear objective over the extensions is {value}, source objective is {f}"), case_json(&d, format!("{value} vs {f}")));
                            return;
                        }
                    }
                    LpResult::Unbounded => {
                        l.violation(format!("C02:objective-unbounded-over-extensions:{}", case.signature), "the linear objective is unbounded over the auxiliary extensions of a fixed assignment", case_json(&d, "unbounded".into()));
                        return;
                    }
                    LpResult::Infeasible => {
                        l.count("feasible-point-without-extension(judged by C01)");
                    }
                }
            }
            Some(x) => {
                let proj = comp.project_x(x, &fixed, &[]);
                let mut pts = source_breakpoints(m, x, &d);
                pts.extend(breakpoints(&m.obj, x, &d));
                pts.extend(interval_endpoints(&proj));
                // an anchor, so that a model without any breakpoint still has its two outer rays
                pts.push(q(0));
                pts.sort();
                pts.dedup();
                let xi = comp.declared.iter().find(|v| &v.0 == x).unwrap().1;
                // cells: [p_i, p_{i+1}] whose midpoint is source-feasible, and isolated feasible points
                let mut cells: Vec<(Q, Q)> = vec![];
                let sat_at = |t: &Q| {
                    let mut e = d.clone();
                    e.insert(x.clone(), t.clone());
                    m.sat(&e) == Ok(true)
                };
                for w in pts.windows(2) {
                    if sat_at(&((&w[0] + &w[1]) / q(2))) {
                        cells.push((w[0].clone(), w[1].clone()));
                    }
                }
                for (k, p) in pts.iter().enumerate() {
                    if sat_at(p) {
                        let left = k > 0 && cells.iter().any(|c| &c.1 == p);
                        let right = cells.iter().any(|c| &c.0 == p);
                        if !left && !right {
                            cells.push((p.clone(), p.clone()));
                        }
                    }
                }
                // unbounded ends: the source domain may be unbounded; cells beyond the outermost breakpoints
                if let (Some(first), Some(last)) = (pts.first(), pts.last()) {
                    for (a, b) in [(first - q(2), first.clone()), (last.clone(), last + q(2))] {
                        if sat_at(&((&a + &b) / q(2))) {
                            cells.push((a, b));
                        }
                    }
                }
                for (p, qq) in cells {
                    let fv = |t: &Q| {
                        let mut e = d.clone();
                        e.insert(x.clone(), t.clone());
                        eval(&m.obj, &e).ok()
                    };
                    let (Some(fp), Some(fq)) = (fv(&p), fv(&qq)) else { continue };
                    let (alpha, beta) = if p == qq { (Q::zero(), fp.clone()) } else { let a = (&fq - &fp) / (&qq - &p); (a.clone(), &fp - &a * &p) };
                    note(fp.clone(), &mut src_best);
                    note(fq.clone(), &mut src_best);
                    // an outer ray of an unbounded declaration on which the objective keeps improving
                    if let (Some(first), Some(last)) = (pts.first(), pts.last()) {
                        let improving_up = if minimize { alpha.is_negative() } else { alpha.is_positive() };
                        let improving_down = if minimize { alpha.is_positive() } else { alpha.is_negative() };
                        if &p == last && qq > p && x_dom_unbounded(true) && improving_up {
                            src_unbounded = true;
                        }
                        if &qq == first && qq > p && x_dom_unbounded(false) && improving_down {
                            src_unbounded = true;
                        }
                    }
                    // sanity: f is affine on the cell
                    if p != qq {
                        let mid = (&p + &qq) / q(2);
                        if fv(&mid) != Some(&alpha * &mid + &beta) {
                            l.violation("REGION-SELFCHECK", "source objective is not affine on a cell of the region partition", case_json(&d, format!("cell [{p},{qq}]")));
                            return;
                        }
                    }
                    l.count("cells_checked");
                    // (i) never better
                    let mut lp = comp.lp_with(&fixed);
                    lp.lb[xi] = Some(p.clone());
                    lp.ub[xi] = Some(qq.clone());
                    lp.int[xi] = comp.spec.vars[xi].1.is_int();
                    lp.obj[xi] -= &alpha;
                    lp.offset -= &beta;
                    lp.maximize = !minimize;
                    match exact::solve_milp(&lp) {
                        LpResult::Optimal { value, x: sol } => {
                            let better = if minimize { value.is_negative() } else { value.is_positive() };
                            if better {
                                l.violation(format!("C02:linear-objective-better-than-source:{}", case.signature), format!("on {x} in [{p},{qq}] an extension reaches objective {} {} than the source objective (at {x}={})", value.abs(), if minimize { "lower" } else { "higher" }, sol[xi]), case_json(&d, format!("cell [{p},{qq}] gap {value}")));
                                return;
                            }
                        }
                        LpResult::Unbounded => {
                            l.violation(format!("C02:objective-unbounded-over-extensions:{}", case.signature), format!("on {x} in [{p},{qq}] the linear objective is unbounded in the {dir} direction over the auxiliary extensions"), case_json(&d, format!("cell [{p},{qq}]")));
                            return;
                        }
                        LpResult::Infeasible => {
                            l.count("feasible-cell-without-extension(judged by C01)");
                            continue;
                        }
                    }
                    // (ii) attained everywhere on the cell
                    let mut row = comp.spec.to_exact().obj.clone();
                    row[xi] -= &alpha;
                    let rhs = &beta - crate::exact::qf(comp.spec.offset);
                    let extra = vec![(row, if minimize { Rel::Le } else { Rel::Ge }, rhs)];
                    let att = comp.project_x(x, &fixed, &extra);
                    if !covers(&att, &p, &qq) {
                        l.violation(format!("C02:source-objective-not-attained:{}", case.signature), format!("on {x} in [{p},{qq}] some source-feasible value has no extension whose linear objective reaches the source objective"), case_json(&d, format!("cell [{p},{qq}] attained on {:?}", att.iter().map(|(a, b)| (a.as_ref().map(|v| v.to_string()), b.as_ref().map(|v| v.to_string()))).collect::<Vec<_>>())));
                        return;
                    }
                }
            }
        }
    }
    l.count("models_decided");
    // ---- whole-model statement: same optimal value and the same unbounded / infeasible status
    if cont.len() <= 1 {
        let whole = exact::solve_milp(&comp.spec.to_exact());
        let src = if src_unbounded { "unbounded".to_string() } else { match &src_best { Some(v) => format!("optimal {v}"), None => "infeasible".to_string() } };
        let lin = match &whole { LpResult::Optimal { value, .. } => format!("optimal {value}"), LpResult::Unbounded => "unbounded".to_string(), LpResult::Infeasible => "infeasible".to_string() };
        l.count(&format!("whole-model-status:{}", src.split(' ').next().unwrap_or("")));
        if src != lin {
            l.violation(format!("C02:whole-model-status-or-optimum-differs:{}", case.signature), format!("source model: {src}; linear model: {lin}"), json!({"model": m.show(), "linear": comp.spec.show(), "source": src, "linear_status": lin, "signature": case.signature}));
        }
    }
}

pub fn run(mut run: Run) -> ! {
    crate::core::silence_panics();
    run.isolate = true;
    run.case_timeout_s = 120.0;
    let quick = run.quick();
    let depth = if quick { 1 } else { 2 };
    let ncores = cores().len();
    run.rule = format!("objectives min/max e with e = one of {ncores} cores (abs/min/max nests, logic values in arithmetic) in every chain of <= {depth} contexts from 13, over 7 declaration sets (real, non-negative, integer, asymmetric, and three unbounded or half-bounded ones) x 7 side-constraint sets (incl. a non-convex one, a logic assertion, and rows that need the exact value of a block the objective uses one-sidedly); plus objectives min/max of 14 cores over three variables with different ranges (three-operand min/max, nested blocks) in every context (thorough), with and without a coupling row; for every assignment of the discrete variables and every cell of the region partition of the continuous one the source objective f is affine, and two exact statements are decided: (i) no auxiliary extension of a source-feasible value has a better linear objective than f (one exact MILP per cell), (ii) every source-feasible value has an extension attaining f (interval-union coverage from exact projections); (iii) the whole source model (optimum over all cells, or unbounded along an outer ray of an unbounded declaration, or infeasible) and the whole linear model (exact MILP) have the same status and optimal value; distinct = model text; non-trivial = compiled with at least one auxiliary variable");
    run.assume("exact source semantics and exact MILP/LP on the linear model; the region partition (breakpoints of objective and constraints plus projection endpoints) makes f affine on each cell, which is self-checked at the cell midpoint");
    run.assume("models with non-dyadic constants, or whose continuous variable occurs under a logic operator, are skipped and counted");
    let n = family_size(depth, quick);
    let ddepth = if quick { 0 } else { 1 };
    run.family("OD-objectives-over-several-continuous-variables", family_d_size(ddepth), move |i, l| {
        check_case(&family_d(i, ddepth), l);
    });
    run.family("O-objective-core-in-context", n, move |i, l| {
        let c = family(i, depth, quick);
        check_case(&c, l);
    });
    for k in ["compiled", "models_decided", "cells_checked", "lowering:abs-aux", "lowering:selector", "lowering:reified-logic"] {
        run.require(k);
    }
    run.finish()
}
