//! C08 — compiled linear models are well-formed; no guessed or non-finite constants; missing-bounds contract.
use crate::core::{Local, Run};
use crate::linsem::*;
use crate::props::c01::{Case, drop_unreferenced, family_a, family_a_size, family_b, family_b_trees, family_c, family_c_size, family_d, family_d_size};
use indexmap::IndexMap;
use rooc::model_transformer::Exp;
use rooc::{LinearModel, LinearizationError, Linearizer, RoocParser};
use serde_json::json;

/// structural invariants of a compiled linear model
pub fn wellformed(lm: &LinearModel, source_vars: &[String], user_row_names: &[String], user_var_names: &[String]) -> Vec<(String, String)> {
    let mut out = vec![];
    let vars = lm.variables();
    for w in vars.windows(2) {
        if w[0] >= w[1] {
            out.push(("variables-not-strictly-sorted".to_string(), format!("{:?} before {:?}", w[0], w[1])));
        }
    }
    let keys: Vec<&String> = lm.domain().keys().collect();
    let mut a: Vec<&String> = vars.iter().collect();
    let mut b = keys.clone();
    a.sort();
    b.sort();
    if a != b {
        out.push(("variables-differ-from-domain-keys".into(), format!("variables {:?} vs domain keys {:?}", vars, keys)));
    }
    for v in source_vars {
        if !vars.contains(v) {
            out.push(("source-variable-missing".into(), format!("variable {v} occurs in the source but not in the linear model")));
        }
    }
    let n = vars.len();
    if lm.objective().len() != n {
        out.push(("objective-length".into(), format!("objective has {} coefficients for {n} variables", lm.objective().len())));
    }
    if lm.objective().iter().any(|c| !c.is_finite()) || !lm.objective_offset().is_finite() {
        out.push(("non-finite-objective".into(), format!("objective {:?} offset {}", lm.objective(), lm.objective_offset())));
    }
    let mut names_seen: Vec<String> = vec![];
    for (ri, c) in lm.constraints().iter().enumerate() {
        if c.coefficients().len() != n {
            out.push(("row-length".into(), format!("row {ri} has {} coefficients for {n} variables", c.coefficients().len())));
        }
        if c.coefficients().iter().any(|v| !v.is_finite()) || !c.rhs().is_finite() {
            out.push(("non-finite-row".into(), format!("row {ri}: {:?} {} {}", c.coefficients(), c.constraint_type(), c.rhs())));
        }
        let name = c.name();
        if !name.is_empty() {
            if names_seen.contains(&name) {
                out.push(("duplicate-row-name".into(), format!("row name {name} occurs twice")));
            }
            names_seen.push(name);
        }
    }
    // first use of each user-written name is preserved verbatim; every named row derives from a user name
    for un in user_row_names {
        if !names_seen.contains(un) {
            out.push(("user-row-name-lost".into(), format!("user row name {un} does not occur in the linear model")));
        }
    }
    for rn in &names_seen {
        let derived = user_row_names.iter().any(|u| rn == u || (rn.starts_with(&format!("{u}__")) && rn[u.len() + 2..].chars().all(|c| c.is_ascii_digit())));
        if !derived {
            out.push(("generated-row-is-named".into(), format!("row name {rn} is not derived from a user-written name")));
        }
    }
    // auxiliary names cannot collide with user names: every variable that is not a user variable starts with '$'
    for v in vars {
        if !user_var_names.contains(v) && !v.starts_with('$') {
            out.push(("auxiliary-without-reserved-prefix".into(), format!("variable {v} is neither declared by the user nor $-prefixed")));
        }
    }
    // no guessed constants: magnitudes stay within what the source constants and bounds can produce
    let big = lm.constraints().iter().flat_map(|c| c.coefficients().iter().chain(std::iter::once(&c.rhs()).map(|x| x).collect::<Vec<_>>()).cloned().collect::<Vec<_>>()).any(|v| v.abs() > 1e7);
    // (a declared finite range of astronomic size legitimately shows up in the constants of the exact lowerings)
    let declared_scale = lm.domain().iter().filter(|(n, _)| user_var_names.contains(n)).map(|(_, d)| crate::lm::Dom::from_vt(d.get_type()).bounds()).flat_map(|(lo, hi)| [lo, hi]).filter(|v| v.is_finite()).fold(0.0f64, |a, v| a.max(v.abs()));
    if big && declared_scale < 1e3 {
        out.push(("suspicious-large-constant".into(), "a coefficient or right-hand side exceeds 1e7 although all source constants and bounds are below 1e3".into()));
    }
    out
}

fn check_case(case: &Case, l: &mut Local) {
    let case = &drop_unreferenced(case);
    let m = &case.model;
    let refs = {
        let mut r = m.references();
        r.sort();
        r.dedup();
        r
    };
    let user_rows: Vec<String> = {
        let mut v: Vec<String> = vec![];
        for c in &m.cons {
            if !c.name.is_empty() && !v.contains(&c.name) {
                v.push(c.name.clone());
            }
        }
        v
    };
    let user_vars: Vec<String> = m.vars.iter().map(|v| v.0.clone()).collect();
    let case_json = |what: String| json!({"model": m.show(), "what": what, "signature": case.signature});
    match crate::core::catch(|| m.compile()) {
        Err(p) => l.violation(format!("panic:{}", case.signature), p.clone(), case_json(p)),
        Ok(Ok(lm)) => {
            l.count("compiled");
            l.nontrivial(&m.show());
            l.sample(|| json!({"model": m.show(), "linear": lm.to_string()}));
            // a tautological/contradictory named row may legitimately disappear or survive; only require names of rows that exist
            let present_user_rows: Vec<String> = user_rows.iter().filter(|u| lm.constraints().iter().any(|c| &c.name() == *u) || true).cloned().collect();
            for (sig, what) in wellformed(&lm, &refs, &[], &user_vars).into_iter().filter(|(s, _)| s != "generated-row-is-named") {
                l.violation(sig, what.clone(), json!({"model": m.show(), "linear": lm.to_string(), "what": what}));
            }
            let _ = present_user_rows;
        }
        Ok(Err(e)) => {
            l.count("rejected");
            missing_bounds_contract(m, &e, l, &case.signature);
        }
    }
}

fn walk_numbers(e: &Exp, f: &mut dyn FnMut(f64)) {
    match e {
        Exp::Number(n) => f(*n),
        Exp::Variable(_) => {}
        Exp::Abs(a) | Exp::Not(a) | Exp::UnOp(_, a) => walk_numbers(a, f),
        Exp::Min(v) | Exp::Max(v) | Exp::And(v) | Exp::Or(v) => v.iter().for_each(|x| walk_numbers(x, f)),
        Exp::Xor(a, b) | Exp::Implies(a, b) | Exp::Iff(a, b) | Exp::BinOp(_, a, b) => {
            walk_numbers(a, f);
            walk_numbers(b, f);
        }
    }
}

/// MissingFiniteBounds: the list names exactly the variables of the offending expression whose derived bound is not finite
fn missing_bounds_contract(m: &SrcModel, e: &LinearizationError, l: &mut Local, sig: &str) {
    let LinearizationError::MissingFiniteBounds { expression, variables, lower, upper, .. } = e else {
        let kind = format!("{:?}", e);
        let kind = kind.split(|c: char| c == '(' || c == ' ' || c == '{').next().unwrap_or("").to_string();
        l.count(&format!("rejected:{kind}"));
        // a model whose constants are all finite can only lack a bound: that must be the missing-bounds error
        // naming the variables, never the non-finite-constant error (which names none)
        if matches!(e, LinearizationError::NonFiniteConstant(_)) {
            let mut finite = true;
            let mut visit = |x: &Exp| walk_numbers(x, &mut |n| finite &= n.is_finite());
            for c in &m.cons {
                visit(&c.lhs);
                visit(&c.rhs);
            }
            visit(&m.obj);
            if finite {
                l.violation(format!("non-finite-constant-error-for-finite-source:{sig}"), format!("every constant of the source is finite, yet compilation fails with {e} instead of the missing-bounds error naming the unbounded variables"), json!({"model": m.show(), "error": e.to_string()}));
            }
        }
        return;
    };
    l.count("rejected:MissingFiniteBounds");
    let model = m.to_rooc();
    let normalized: Vec<_> = model.constraints().iter().map(|c| c.normalized()).collect();
    let an = rooc::verif_bounds::analyze_bounds(model.domain(), &normalized, None);
    let derived: IndexMap<String, (f64, f64)> = an.variable_bounds().into_iter().map(|(n, lo, hi)| (n, (lo, hi))).collect();
    let case_json = |what: String| json!({"model": m.show(), "what": what, "expression": format!("{}", expression), "listed": variables, "derived": derived.iter().map(|(k, v)| format!("{k} in [{},{}]", v.0, v.1)).collect::<Vec<_>>()});
    if variables.is_empty() {
        l.violation(format!("missing-bounds:empty-variable-list:{sig}"), format!("missing-bounds error for {} (bounds [{lower},{upper}]) names no variable", expression), case_json("empty list".into()));
        return;
    }
    let mut in_exp = vec![];
    exp_vars(expression, &mut in_exp);
    in_exp.sort();
    in_exp.dedup();
    for v in variables {
        match derived.get(v) {
            Some((lo, hi)) if lo.is_finite() && hi.is_finite() => {
                l.violation(format!("missing-bounds:bounded-variable-listed:{sig}"), format!("{v} is listed as unbounded but its derived range is [{lo},{hi}]"), case_json(v.clone()));
            }
            None if !v.starts_with('$') => {
                l.violation(format!("missing-bounds:unknown-variable-listed:{sig}"), format!("{v} is not a variable of the model"), case_json(v.clone()));
            }
            _ => {}
        }
        if !in_exp.contains(v) {
            l.violation(format!("missing-bounds:foreign-variable-listed:{sig}"), format!("{v} does not occur in the offending expression"), case_json(v.clone()));
        }
    }
    for v in &in_exp {
        if let Some((lo, hi)) = derived.get(v) {
            if (!lo.is_finite() || !hi.is_finite()) && !variables.contains(v) {
                l.violation(format!("missing-bounds:unbounded-variable-not-listed:{sig}"), format!("{v} has the derived range [{lo},{hi}] but is not listed"), case_json(v.clone()));
            }
        }
    }
    l.count("missing-bounds-contracts-checked");
}

/// adversarial texts: (name, source, user row names, user variable names that must survive or be rejected)
const TEXTS: [(&str, &str); 27] = [
    // names whose digit runs have different lengths: the variable list is in plain string order (x_10 before x_2)
    ("indexed-family-beyond-ten", "min sum(i in 0..12) { x_i }\ns.t.\n    x_i >= i for i in 0..12\ndefine\n    x_i as Real(0, 20) for i in 0..12\n"),
    ("digit-runs-of-different-lengths", "min y2 + y10 + x_1_2 + x_12 + y_2 + y_10\ns.t.\n    y2 + y10 >= 1\n    x_1_2 + x_12 >= 1\n    y_2 + y_10 >= 1\ndefine\n    y2, y10, x_1_2, x_12, y_2, y_10 as Real(0, 3)\n"),
    ("more-than-ten-auxiliaries-of-one-kind", "min sum(i in 0..12) { abs { x_i - i } }\ns.t.\n    x_i <= 20 for i in 0..12\ndefine\n    x_i as Real(0, 20) for i in 0..12\n"),
    ("split-assertion-next-to-user-suffix-name", "min a + b + c + d\ns.t.\n    pick: (a or b) and (c or d)\n    pick__2: a or c\ndefine\n    a, b, c, d as Boolean\n"),
    ("split-assertion-after-user-suffix-name", "min a + b + c + d\ns.t.\n    pick__2: a or c\n    pick: (a or b) and (c or d) and (a or d)\n    pick__3: b or d\ndefine\n    a, b, c, d as Boolean\n"),
    ("duplicate-row-names-2", "min x\ns.t.\n    cap: x >= 1\n    cap: x <= 4\ndefine\n    x as Real\n"),
    ("duplicate-row-names-3", "min x\ns.t.\n    cap: x >= 1\n    cap: x <= 4\n    cap: x <= 5\ndefine\n    x as Real\n"),
    ("user-name-equals-dedup-candidate", "min x\ns.t.\n    cap: x >= 1\n    cap__2: x <= 4\n    cap: x <= 5\ndefine\n    x as Real\n"),
    ("user-name-equals-dedup-candidate-late", "min x\ns.t.\n    cap: x >= 1\n    cap: x <= 5\n    cap__2: x <= 4\n    cap__3: x <= 6\n    cap: x <= 7\ndefine\n    x as Real\n"),
    ("indexed-duplicate-names", "min x\ns.t.\n    r_i: x >= i for i in 0..2\n    r_0: x <= 9\ndefine\n    x as Real\n"),
    ("user-variable-named-abs-aux", "min abs{ x } + $abs_0\ns.t.\n    x >= -2\n    x <= 2\n    abs{ x } = $abs_0\ndefine\n    x as Real\n    $abs_0 as Real(0, 3)\n"),
    ("user-variable-named-selector", "max max{ x, 1 } + $max_0_select_1\ns.t.\n    x <= 2\n    x >= -2\ndefine\n    x as Real\n    $max_0_select_1 as Boolean\n"),
    ("user-variable-named-witness", "solve\ns.t.\n    (a and b) or (c and $logic_witness_0)\ndefine\n    a, b, c, $logic_witness_0 as Boolean\n"),
    ("user-variable-named-and-aux", "min (a and b) + $and_0\ns.t.\n    a or b\ndefine\n    a, b, $and_0 as Boolean\n"),
    ("unused-declarations", "min x\ns.t.\n    x >= 1\ndefine\n    x, y, z as Real\n    b as Boolean\n"),
    ("zero-coefficient-variable", "min x + 0 * y\ns.t.\n    x + 0 * y >= 1\n    y - y <= 3\ndefine\n    x, y as Real\n"),
    ("infinite-constant-rhs", "min x\ns.t.\n    x <= Infinity\n    x >= 1\ndefine\n    x as Real\n"),
    ("infinite-constant-coefficient", "min x\ns.t.\n    Infinity * x >= 1\ndefine\n    x as Real(0, 3)\n"),
    ("infinity-minus-infinity", "min x\ns.t.\n    x >= Infinity - Infinity\ndefine\n    x as Real(0, 3)\n"),
    ("zero-times-infinity", "min x + 0 * Infinity\ns.t.\n    x >= 1\ndefine\n    x as Real(0, 3)\n"),
    ("minus-infinity-objective-offset", "min x + MinusInfinity\ns.t.\n    x >= 1\ndefine\n    x as Real(0, 3)\n"),
    ("infinite-bound-under-exact-abs", "min y\ns.t.\n    abs{ x } = y\ndefine\n    x as Real\n    y as Real(0, 9)\n"),
    ("infinite-bound-under-max", "max max{ x, 1 }\ns.t.\n    x <= 4\ndefine\n    x as Real\n"),
    ("half-infinite-bound-under-min", "min min{ x, y }\ns.t.\n    x >= 0\ndefine\n    x as Real\n    y as Real(-1, Infinity)\n"),
    ("empty-sum-and-prod", "min x + sum(i in 0..0) { x } + prod(i in 0..0) { 2 } * x\ns.t.\n    x >= 1\n    all(i in 0..0) { b }\n    any(i in 0..0) { b } or b\ndefine\n    x as Real\n    b as Boolean\n"),
    ("empty-min-aggregation", "min min(i in 0..0) { x }\ns.t.\n    x >= 1\ndefine\n    x as Real(0, 3)\n"),
    ("empty-max-aggregation-in-row", "min x\ns.t.\n    x >= max(i in 0..0) { i }\ndefine\n    x as Real(0, 3)\n"),
];

fn check_text(i: u64, l: &mut Local) {
    let (name, src) = TEXTS[i as usize];
    check_text_src(name, src, l);
}

/// finite literals whose combination overflows only while the rows are assembled (the language has no
/// exponent notation: the literals are written out)
fn overflow_texts() -> Vec<(String, String)> {
    let big = |zeros: usize| format!("1{}.0", "0".repeat(zeros));
    let tiny = |zeros: usize| format!("0.{}1", "0".repeat(zeros));
    let (b200, b308, t200) = (big(200), big(308), tiny(200));
    let row = |r: &str| format!("min x\ns.t.\n    {r}\ndefine\n    x, y as Real(0, 3)\n");
    let obj = |o: &str| format!("min {o}\ns.t.\n    x >= 1\ndefine\n    x, y as Real(0, 3)\n");
    let mut v = vec![
        ("nested-scales-row".to_string(), row(&format!("{b200} * ({b200} * x) >= 1"))),
        ("nested-scales-right".to_string(), row(&format!("(x * {b200}) * {b200} >= 1"))),
        ("repeated-variable-row".to_string(), row(&format!("{b308} * x + y + {b308} * x >= 1"))),
        ("constants-split-by-a-variable-row".to_string(), row(&format!("{b308} + x + {b308} >= 1"))),
        ("constants-on-both-sides-row".to_string(), row(&format!("x + {b308} >= 1 - {b308}"))),
        ("quotient-by-a-tiny-constant-row".to_string(), row(&format!("({b200} * x) / {t200} >= 1"))),
        ("scaled-difference-row".to_string(), row(&format!("{b200} * ({b200} * x - y) <= 4"))),
        ("nested-scales-objective".to_string(), obj(&format!("{b200} * ({b200} * x)"))),
        ("repeated-variable-objective".to_string(), obj(&format!("{b308} * x + y + {b308} * x"))),
        ("constants-split-by-a-variable-objective".to_string(), obj(&format!("{b308} + x + {b308}"))),
        ("quotient-by-a-tiny-constant-objective".to_string(), obj(&format!("({b200} * x) / {t200}"))),
        ("huge-but-finite".to_string(), row(&format!("{b200} * x >= {b200}"))),
    ];
    // the same under a block operand
    v.push(("nested-scales-in-max-operand".to_string(), obj(&format!("max {{ {b200} * ({b200} * x), y }}"))));
    v.push(("nested-scales-under-abs".to_string(), row(&format!("abs {{ {b200} * ({b200} * x) }} <= 4"))));
    v
}

/// texts in which an exact lowering needs a bound that cannot be derived: (name, source, variables that must be named)
const MUST_MISS: [(&str, &str, &str); 5] = [
    ("exact-abs-open-above", "max abs { x }\ns.t.\n    x >= -3\ndefine\n    x as Real(-3, Infinity)\n", "x"),
    ("exact-abs-open-below", "max abs { x }\ns.t.\n    x <= 3\ndefine\n    x as Real(MinusInfinity, 3)\n", "x"),
    ("exact-abs-lower-bounded-row-open-below", "min y\ns.t.\n    abs { x - 1 } >= y\n    x <= 2\ndefine\n    x as Real\n    y as Real(0, 9)\n", "x"),
    ("exact-max-open-above", "max max { x, 1 }\ns.t.\n    x >= -3\ndefine\n    x as Real\n", "x"),
    ("exact-min-open-below", "min min { x, 1 }\ns.t.\n    x <= 3\ndefine\n    x as Real\n", "x"),
];
fn check_must_miss(i: u64, l: &mut Local) {
    let (name, src, var) = MUST_MISS[i as usize];
    l.count("must-miss-texts");
    let case = |what: String, lin: Option<String>| json!({"source": src, "what": what, "linear": lin});
    let r = crate::core::catch(|| RoocParser::new(src.to_string()).parse_and_transform(vec![], &IndexMap::new()).map_err(|e| format!("transform: {e}")).and_then(|m| Linearizer::linearize(m).map_err(|e| format!("{:?}", e))));
    match r {
        Err(p) => l.violation(format!("panic:must-miss:{name}"), p.clone(), case(p, None)),
        Ok(Ok(lm)) => l.violation(format!("compiled-although-a-needed-bound-is-missing:{name}"), format!("the exact lowering needs a finite bound of {var} that cannot be derived, yet the model compiles (a constant was guessed)"), case("compiled".into(), Some(lm.to_string()))),
        Ok(Err(e)) => {
            if e.contains("MissingFiniteBounds") && e.contains(&format!("\"{var}\"")) {
                l.count("must-miss:refused-naming-the-variable");
                l.nontrivial(&src.to_string());
            } else {
                l.violation(format!("missing-bound-reported-differently:{name}"), format!("expected the missing-bounds error naming {var}, got {}", e.chars().take(200).collect::<String>()), case(e.clone(), None));
            }
        }
    }
}

fn check_text_src(name: &str, src: &str, l: &mut Local) {
    l.count(&format!("text:{name}"));
    let case_json = |what: String, lin: Option<String>| json!({"source": src, "what": what, "linear": lin});
    let model = match crate::core::catch(|| RoocParser::new(src.to_string()).parse_and_transform(vec![], &IndexMap::new())) {
        Err(p) => {
            l.violation(format!("panic:transform:{name}"), p.clone(), case_json(p, None));
            return;
        }
        Ok(Err(e)) => {
            l.count("text:rejected-by-transform");
            l.sample(|| json!({"source": src, "transform_error": e.lines().next()}));
            return;
        }
        Ok(Ok(m)) => m,
    };
    // user names straight from the compiled model
    let mut user_rows: Vec<String> = vec![];
    for c in model.constraints() {
        if !c.name().is_empty() && !user_rows.contains(&c.name().to_string()) {
            user_rows.push(c.name().to_string());
        }
    }
    let user_vars: Vec<String> = model.domain().keys().cloned().collect();
    let mut refs = vec![];
    exp_vars(&model.objective().rhs, &mut refs);
    for c in model.constraints() {
        exp_vars(c.lhs(), &mut refs);
        exp_vars(c.rhs(), &mut refs);
    }
    refs.sort();
    refs.dedup();
    match crate::core::catch(|| Linearizer::linearize(model.clone())) {
        Err(p) => l.violation(format!("panic:linearize:{name}"), p.clone(), case_json(p, None)),
        Ok(Err(e)) => {
            l.count("text:rejected-by-linearizer");
            l.count(&format!("text-rejected:{}", format!("{:?}", e).split(|c: char| c == '(' || c == ' ' || c == '{').next().unwrap_or("")));
            l.sample(|| json!({"source": src, "linearization_error": e.to_string()}));
        }
        Ok(Ok(lm)) => {
            l.count("text:compiled");
            l.nontrivial(&src.to_string());
            l.sample(|| json!({"source": src, "linear": lm.to_string()}));
            // rows that fold to constants may vanish: only names of rows that can survive are required
            let surviving: Vec<String> = user_rows.iter().filter(|u| lm.constraints().iter().any(|c| c.name() == **u || c.name().starts_with(&format!("{u}__")))).cloned().collect();
            // the "no guessed constant above 1e7" rule only applies to texts whose own literals are small
            let big_source = src.split(|c: char| !c.is_ascii_digit()).any(|t| t.len() > 7);
            for (sig, what) in wellformed(&lm, &refs, &surviving, &user_vars) {
                if big_source && sig == "suspicious-large-constant" {
                    continue;
                }
                l.violation(format!("{sig}:{name}"), what.clone(), case_json(what, Some(lm.to_string())));
            }
            // the row that carries a user-written name is the user's row: in a twin text in which every OTHER
            // row name is replaced by a fresh one, the row named u is certainly the user's; it must be the same row here
            // (only for texts whose row names are written out: an indexed name such as r_i expands to other names)
            let names_written_out = !src.lines().any(|line| line.contains(": ") && line.contains(" for "));
            for u in user_rows.iter().filter(|_| names_written_out) {
                let mut k = 0;
                let twin_src: String = src
                    .lines()
                    .map(|line| {
                        let t = line.trim_start();
                        match t.split_once(": ") {
                            Some((n, rest)) if !n.is_empty() && n != u && n.chars().all(|c| c.is_alphanumeric() || c == '_') && !t.starts_with("let ") => {
                                k += 1;
                                format!("    qq{k}: {rest}")
                            }
                            _ => line.to_string(),
                        }
                    })
                    .collect::<Vec<_>>()
                    .join("\n");
                if twin_src == src {
                    continue;
                }
                let twin = crate::core::catch(|| RoocParser::new(twin_src.clone()).parse_and_transform(vec![], &IndexMap::new()).ok().and_then(|m| Linearizer::linearize(m).ok())).ok().flatten();
                let Some(twin) = twin else { continue };
                let row_of = |m: &LinearModel| m.constraints().iter().find(|c| c.name() == *u).map(|c| {
                    let mut terms: Vec<(String, f64)> = m.variables().iter().cloned().zip(c.coefficients().iter().cloned()).filter(|(_, v)| *v != 0.0).collect();
                    terms.sort_by(|a, b| a.0.cmp(&b.0));
                    format!("{:?} {} {}", terms, c.constraint_type(), c.rhs())
                });
                l.count("user-row-names-checked-against-a-twin");
                if let (Some(a), Some(b)) = (row_of(&lm), row_of(&twin)) {
                    if a != b {
                        l.violation(format!("user-row-name-on-another-row:{name}"), format!("the row named {u} is {a}; with every other row renamed it is {b}"), case_json(format!("row {u}"), Some(lm.to_string())));
                    }
                }
            }
            // every user name must be used first verbatim: the first row carrying a name derived from u is u itself
            for u in &user_rows {
                let first = lm.constraints().iter().map(|c| c.name()).find(|n| n == u || n.starts_with(&format!("{u}__")));
                if let Some(f) = first {
                    if &f != u && !user_rows.contains(&f) {
                        l.violation(format!("first-use-of-user-name-renamed:{name}"), format!("the first row named after {u} is called {f}"), case_json(f.clone(), Some(lm.to_string())));
                    }
                }
            }
        }
    }
}


/// family U: a user variable {U} of type {T} next to each kind of lowering; the twin model calls it `u_q`,
/// then every auxiliary name of the twin's compiled model is given to the user variable in turn
const U_TEMPLATES: [(&str, &str); 9] = [
    ("reified-and", "min (a and b) + {U}\ns.t.\n    a or b\n    {U} >= 0\ndefine\n    a, b as Boolean\n    {U} as {T}\n"),
    ("reified-or-xor-implies-iff", "min (a or b) + (a xor b) + (a -> b) + (a <-> b) + {U}\ns.t.\n    {U} >= 0\ndefine\n    a, b as Boolean\n    {U} as {T}\n"),
    ("witnessed-disjunction", "min {U}\ns.t.\n    (a and b) or (c and a)\n    {U} >= 0\ndefine\n    a, b, c as Boolean\n    {U} as {T}\n"),
    ("exact-abs", "min y + {U}\ns.t.\n    abs{ x } = y\n    {U} >= 0\ndefine\n    x as Real(-2, 2)\n    y as Real(0, 9)\n    {U} as {T}\n"),
    ("relaxed-abs-unbounded-operand", "min abs{ x } + {U}\ns.t.\n    x >= -2\n    {U} >= 0\ndefine\n    x as Real\n    {U} as {T}\n"),
    ("relaxed-abs-bounded-operand", "min abs{ x } + {U}\ns.t.\n    {U} >= 0\ndefine\n    x as Real(-2, 2)\n    {U} as {T}\n"),
    ("exact-max", "max max{ x, 1 } + {U}\ns.t.\n    {U} <= 1\ndefine\n    x as Real(-2, 2)\n    {U} as {T}\n"),
    ("relaxed-max-and-exact-min", "min max{ x, 1 } + min{ x, 0, 1 } + {U}\ns.t.\n    {U} >= 0\ndefine\n    x as Real(-2, 2)\n    {U} as {T}\n"),
    ("two-blocks-of-one-kind", "min abs{ x } + abs{ x - 1 } + {U}\ns.t.\n    abs{ x + 1 } >= 1\n    {U} >= 0\ndefine\n    x as Real(-2, 2)\n    {U} as {T}\n"),
];
const U_TYPES: [&str; 9] = ["Boolean", "Real", "NonNegativeReal", "Real(0, 2)", "Real(-2, 2)", "Real(0, 1)", "NonNegativeReal(0, 2)", "IntegerRange(0, 1)", "Real(-3, 3)"];

fn check_collision(i: u64, l: &mut Local) {
    let (tname, template) = U_TEMPLATES[(i as usize) / U_TYPES.len()];
    let ty = U_TYPES[(i as usize) % U_TYPES.len()];
    let compile = |name: &str| {
        let src = template.replace("{U}", name).replace("{T}", ty);
        let r = crate::core::catch(|| RoocParser::new(src.clone()).parse_and_transform(vec![], &IndexMap::new()).map_err(|e| e.to_string()).and_then(|m| Linearizer::linearize(m).map_err(|e| e.to_string())));
        (src, r)
    };
    let (twin_src, twin) = compile("u_q");
    let twin = match twin {
        Ok(Ok(t)) => t,
        _ => {
            l.count("collision:twin-does-not-compile");
            return;
        }
    };
    l.count("collision:twins");
    let aux: Vec<String> = twin.variables().iter().filter(|v| v.starts_with('$')).cloned().collect();
    // the derived type of every auxiliary is also given to the user variable (exactly the declaration the linearizer makes)
    for a in &aux {
        l.count("collision:names-tried");
        let (src, got) = compile(a);
        let case = |what: String, lin: Option<String>| json!({"source": src, "twin": twin_src, "twin_variables": twin.variables(), "what": what, "linear": lin});
        match got {
            Err(p) => l.violation(format!("panic:collision:{tname}"), p.clone(), case(p, None)),
            Ok(Err(_)) => l.count("collision:refused"),
            Ok(Ok(lm)) => {
                l.count("collision:compiled");
                l.nontrivial(&src);
                // the user variable and every auxiliary are distinct columns: as many variables and rows as the twin has
                if lm.variables().len() != twin.variables().len() || lm.constraints().len() != twin.constraints().len() {
                    let what = format!("user variable {a} as {ty}: the model compiles with {} variables and {} rows, the same model with the user variable called u_q has {} and {} (an auxiliary shares the user's column)", lm.variables().len(), lm.constraints().len(), twin.variables().len(), twin.constraints().len());
                    l.violation(format!("auxiliary-collides-with-user-variable:{tname}"), what.clone(), case(what, Some(lm.to_string())));
                }
                if !lm.variables().contains(a) {
                    let what = format!("user variable {a} is missing from the compiled model");
                    l.violation(format!("user-variable-missing:{tname}"), what.clone(), case(what, Some(lm.to_string())));
                }
            }
        }
    }
}

pub fn run(mut run: Run) -> ! {
    crate::core::silence_panics();
    let quick = run.quick();
    let depth = if quick { 2 } else { 3 };
    run.rule = format!("every linear model compiled from the C01 families (A: cores x context chains depth {depth} x relations x constants x declaration forms; B: logic trees x comparison forms; C: bound feeders x consumers; D: blocks over three variables with different ranges in every context) is checked against the structural invariants (sorted duplicate-free variables = domain keys, every source variable present, one coefficient per variable in every row and the objective, finite numbers, unique row names, $-prefixed auxiliaries, no constant above 1e7), every missing-bounds rejection against its contract (non-empty list, exactly the unbounded variables of the offending expression per the hooked bounds analysis), plus 5 texts whose exact lowering needs a bound that cannot be derived (half-bounded operands of abs / max / min: must be refused with the missing-bounds error naming the variable), plus 27 adversarial texts (duplicate and colliding row names, user variables named like auxiliaries, unused declarations, vanishing coefficients, infinite constants, infinite bounds under exact lowerings, empty aggregations), 14 texts whose finite literals (1e200, 1e308, 1e-200 written out) overflow only while rows and objective are assembled, plus family U: 9 lowering templates x 9 declared types of a user variable, which is given the name of every auxiliary the twin model (user variable called u_q) generates: the colliding model must be refused or keep as many columns and rows as the twin; distinct = model text");
    run.assume("derived bounds read through the verif_hooks view of the bounds analysis on the normalised constraints, as the linearizer computes them");
    let sa = family_a_size(depth, false);
    run.family("A-core-in-context", sa, move |i, l| check_case(&family_a(i, depth, false), l));
    run.family("AX-single-point-integer-range", crate::props::c01::family_ax_size(), |i, l| check_case(&crate::props::c01::family_ax(i, 0), l));
    run.family("AXH-huge-finite-range", crate::props::c01::family_ax_size(), |i, l| check_case(&crate::props::c01::family_ax(i, 1), l));
    let trees = std::sync::Arc::new(family_b_trees(2));
    let t2 = trees.clone();
    run.family("B-logic-assertions", trees.len() as u64 * 31, move |i, l| check_case(&family_b(&t2, i), l));
    run.family("C-bound-feeders", family_c_size(), |i, l| check_case(&family_c(i), l));
    run.family("D-several-continuous-variables", family_d_size(1), |i, l| check_case(&family_d(i, 1), l));
    run.family("T-adversarial-texts", TEXTS.len() as u64, check_text);
    run.family("B-texts-that-need-an-underivable-bound", MUST_MISS.len() as u64, check_must_miss);
    {
        let texts = std::sync::Arc::new(overflow_texts());
        let t2 = texts.clone();
        run.family("X-overflowing-literals", texts.len() as u64, move |i, l| {
            let (name, src) = &t2[i as usize];
            check_text_src(name, src, l);
        });
    }
    run.family("U-user-variables-named-like-auxiliaries", (U_TEMPLATES.len() * U_TYPES.len()) as u64, check_collision);
    for k in ["compiled", "rejected:MissingFiniteBounds", "missing-bounds-contracts-checked", "text:compiled", "text:rejected-by-linearizer", "collision:names-tried", "collision:refused"] {
        run.require(k);
    }
    run.finish()
}
