//! C04 (returned solutions are feasible and self-consistent) and C05 (verdicts and optimal values),
//! one engine, two verdict sets.
use crate::core::{Local, Run};
use crate::exact::{self, LpResult, Rel, to_f64};
use crate::lm::{Dom, LmFamily, LmSpec, Row, Sense};
use crate::solve::{ALL_SOLVERS, Outcome, Sol, SolverKind, run_solver};
use serde_json::json;

const EPS: f64 = 1e-6;

fn families(quick: bool) -> Vec<LmFamily> {
    let full_doms = vec![
        Dom::NonNeg,
        Dom::Free,
        Dom::Real(-2.0, 3.0),
        Dom::NonNegB(1.0, 4.0),
        Dom::Real(f64::NEG_INFINITY, 2.0),
        Dom::Real(-1.0, f64::INFINITY),
        Dom::Bool,
        Dom::Int(-1, 2),
    ];
    let mut v = vec![];
    if quick {
        v.push(LmFamily {
            name: "F2q-domains",
            n: 2,
            m: 1,
            doms: vec![Dom::NonNeg, Dom::Free, Dom::Real(-2.0, 3.0), Dom::Bool, Dom::Int(-1, 2)],
            coefs: vec![-1.0, 0.0, 2.0],
            rhss: vec![-1.0, 2.0],
            rels: vec![Rel::Le, Rel::Ge, Rel::Eq],
            objs: vec![-1.0, 0.0, 1.0],
            senses: vec![Sense::Min, Sense::Max],
            offsets: vec![0.0, 2.5],
            named: true,
        });
        v.push(LmFamily {
            name: "F1q-structure",
            n: 2,
            m: 2,
            doms: vec![Dom::NonNeg, Dom::Free],
            coefs: vec![-1.0, 0.0, 1.0],
            rhss: vec![0.0, 2.0],
            rels: vec![Rel::Le, Rel::Ge, Rel::Eq],
            objs: vec![-1.0, 1.0],
            senses: vec![Sense::Min],
            offsets: vec![0.0],
            named: false,
        });
        // half-bounded declarations (each adapter has to forward exactly one finite side) and bounds that coincide with 0
        v.push(LmFamily {
            name: "F7q-half-bounded",
            n: 2,
            m: 1,
            doms: vec![Dom::Real(f64::NEG_INFINITY, 2.0), Dom::Real(-1.0, f64::INFINITY), Dom::NonNegB(1.0, f64::INFINITY), Dom::NonNeg, Dom::Real(0.0, 3.0), Dom::Real(-2.0, 0.0), Dom::Real(f64::NEG_INFINITY, -1.0), Dom::Real(1.0, f64::INFINITY), Dom::Int(0, 1), Dom::Int(-2, -1)],
            coefs: vec![-1.0, 0.0, 2.0],
            rhss: vec![-1.0, 2.0],
            rels: vec![Rel::Le, Rel::Ge, Rel::Eq],
            objs: vec![-1.0, 0.0, 1.0],
            senses: vec![Sense::Min, Sense::Max],
            offsets: vec![0.0],
            named: true,
        });
    } else {
        v.push(LmFamily {
            name: "F2-domains",
            n: 2,
            m: 1,
            doms: full_doms.clone(),
            coefs: vec![-2.0, -1.0, 0.0, 1.0, 2.0],
            rhss: vec![-1.0, 0.0, 2.0],
            rels: vec![Rel::Le, Rel::Ge, Rel::Eq],
            objs: vec![-1.0, 0.0, 1.0],
            senses: vec![Sense::Min, Sense::Max],
            offsets: vec![0.0, 2.5],
            named: true,
        });
        v.push(LmFamily {
            name: "F1-structure",
            n: 2,
            m: 2,
            doms: vec![Dom::NonNeg, Dom::Free, Dom::Real(-2.0, 3.0)],
            coefs: vec![-1.0, 0.0, 1.0, 2.0],
            rhss: vec![-1.0, 0.0, 2.0],
            rels: vec![Rel::Le, Rel::Ge, Rel::Eq],
            objs: vec![-1.0, 0.0, 1.0],
            senses: vec![Sense::Min, Sense::Max],
            offsets: vec![0.0],
            named: false,
        });
        v.push(LmFamily {
            name: "F3a-rank-n3m2",
            n: 3,
            m: 2,
            doms: vec![Dom::NonNeg, Dom::Free],
            coefs: vec![-1.0, 0.0, 1.0],
            rhss: vec![0.0, 1.0],
            rels: vec![Rel::Eq, Rel::Ge],
            objs: vec![-1.0, 1.0],
            senses: vec![Sense::Min],
            offsets: vec![0.0],
            named: false,
        });
        v.push(LmFamily {
            name: "F3b-eqdense-n3m3",
            n: 3,
            m: 3,
            doms: vec![Dom::NonNeg],
            coefs: vec![-1.0, 0.0, 1.0],
            rhss: vec![0.0, 1.0],
            rels: vec![Rel::Eq],
            objs: vec![-1.0, 1.0],
            senses: vec![Sense::Min],
            offsets: vec![0.0],
            named: false,
        });
    }
    // one-decimal coefficients (not representable in binary): every solver's tolerances meet rounding residues
    v.push(LmFamily {
        name: "F8-decimals-n2m2",
        n: 2,
        m: 2,
        doms: vec![Dom::NonNeg],
        coefs: vec![-0.3, 0.0, 0.1, 0.2, 0.4],
        rhss: vec![0.3, 2.0],
        rels: vec![Rel::Le, Rel::Ge],
        objs: vec![0.5, 1.0],
        senses: vec![Sense::Max],
        offsets: vec![0.0],
        named: false,
    });
    v.push(LmFamily {
        name: "F5-milp-n3m1",
        n: 3,
        m: 1,
        doms: vec![Dom::Bool, Dom::Int(0, 2), Dom::NonNeg],
        coefs: vec![-1.0, 1.0, 2.0],
        rhss: vec![1.0, 2.5],
        rels: vec![Rel::Le, Rel::Ge, Rel::Eq],
        objs: vec![-1.0, 1.0, 2.0],
        senses: vec![Sense::Min, Sense::Max],
        offsets: vec![0.0],
        named: true,
    });
    // named single-variable rows whose right-hand side coincides with a domain bound while the coefficient is not 1
    v.push(LmFamily {
        name: "F10-rows-that-look-like-bounds",
        n: 2,
        m: 1,
        doms: vec![Dom::NonNegB(0.0, 4.0), Dom::Real(2.0, 10.0), Dom::Real(-4.0, 2.0)],
        coefs: vec![-2.0, 0.0, 0.5, 1.0, 2.0],
        rhss: vec![-4.0, 2.0, 4.0],
        rels: vec![Rel::Le, Rel::Ge, Rel::Eq],
        objs: vec![-1.0, 0.0, 3.0],
        senses: vec![Sense::Min, Sense::Max],
        offsets: vec![0.0],
        named: true,
    });
    // satisfy models that still carry objective coefficients and an offset: the reported value must be the
    // objective function at the returned point
    v.push(LmFamily {
        name: "F6c-satisfy-with-costs",
        n: 2,
        m: 1,
        doms: vec![Dom::NonNeg, Dom::Free, Dom::Bool, Dom::Int(-1, 2), Dom::Real(-2.0, 3.0)],
        coefs: vec![-1.0, 0.0, 1.0],
        rhss: vec![-1.0, 1.0],
        rels: vec![Rel::Le, Rel::Ge, Rel::Eq],
        objs: vec![-2.0, 0.0, 1.0],
        senses: vec![Sense::Satisfy],
        offsets: vec![0.0, 2.5],
        named: true,
    });
    v.push(LmFamily {
        name: "F6-satisfy",
        n: 2,
        m: 2,
        doms: vec![Dom::NonNeg, Dom::Free, Dom::Bool, Dom::Int(-1, 2)],
        coefs: vec![-1.0, 0.0, 1.0],
        rhss: vec![-1.0, 1.0],
        rels: vec![Rel::Le, Rel::Ge, Rel::Eq],
        objs: vec![0.0],
        senses: vec![Sense::Satisfy],
        offsets: vec![0.0],
        named: true,
    });
    v
}

pub fn specials() -> Vec<(&'static str, LmSpec)> {
    fn row(c: &[f64], rel: Rel, rhs: f64, name: &str) -> Row {
        Row { coef: c.to_vec(), rel, rhs, name: name.to_string() }
    }
    fn vars(n: usize, d: Dom) -> Vec<(String, Dom)> {
        (0..n).map(|i| (format!("x{}", i + 1), d.clone())).collect()
    }
    let mut v = vec![];
    // Beale's cycling example (min -3/4 x4 + 20 x5 - 1/2 x6 + 6 x7)
    v.push((
        "beale",
        LmSpec {
            vars: vars(4, Dom::NonNeg),
            rows: vec![
                row(&[0.25, -8.0, -1.0, 9.0], Rel::Le, 0.0, "a"),
                row(&[0.5, -12.0, -0.5, 3.0], Rel::Le, 0.0, "b"),
                row(&[0.0, 0.0, 1.0, 0.0], Rel::Le, 1.0, "c"),
            ],
            obj: vec![-0.75, 20.0, -0.5, 6.0],
            offset: 0.0,
            sense: Sense::Min,
        },
    ));
    // Klee-Minty n=3
    v.push((
        "klee-minty-3",
        LmSpec {
            vars: vars(3, Dom::NonNeg),
            rows: vec![
                row(&[1.0, 0.0, 0.0], Rel::Le, 5.0, ""),
                row(&[4.0, 1.0, 0.0], Rel::Le, 25.0, ""),
                row(&[8.0, 4.0, 1.0], Rel::Le, 125.0, ""),
            ],
            obj: vec![4.0, 2.0, 1.0],
            offset: 0.0,
            sense: Sense::Max,
        },
    ));
    // free variable with an unbounded optimal face: min x s.t. x - y = 0, x >= 1 ; y free
    v.push((
        "free-unbounded-face",
        LmSpec {
            vars: vec![("x".into(), Dom::Free), ("y".into(), Dom::Free), ("z".into(), Dom::Free)],
            rows: vec![row(&[1.0, -1.0, 0.0], Rel::Eq, 0.0, "link"), row(&[1.0, 0.0, 0.0], Rel::Ge, 1.0, "lb")],
            obj: vec![1.0, 0.0, 0.0],
            offset: 1.5,
            sense: Sense::Min,
        },
    ));
    // primal and dual infeasible
    v.push((
        "primal-dual-infeasible",
        LmSpec {
            vars: vec![("x".into(), Dom::Free), ("y".into(), Dom::Free)],
            rows: vec![row(&[1.0, -1.0], Rel::Ge, 1.0, ""), row(&[1.0, -1.0], Rel::Le, 0.0, "")],
            obj: vec![1.0, 1.0],
            offset: 0.0,
            sense: Sense::Min,
        },
    ));
    // row repeated under two names; duplicate names
    v.push((
        "duplicate-rows-names",
        LmSpec {
            vars: vars(2, Dom::NonNeg),
            rows: vec![
                row(&[1.0, 1.0], Rel::Le, 4.0, "cap"),
                row(&[1.0, 1.0], Rel::Le, 4.0, "cap2"),
                row(&[1.0, 0.0], Rel::Le, 3.0, "cap"),
            ],
            obj: vec![1.0, 2.0],
            offset: 0.0,
            sense: Sense::Max,
        },
    ));
    // empty rows
    for (nm, rel, rhs) in [("empty-0eq1", Rel::Eq, 1.0), ("empty-0le-1", Rel::Le, -1.0), ("empty-0eq0", Rel::Eq, 0.0), ("empty-0ge0", Rel::Ge, 0.0)] {
        v.push((
            nm,
            LmSpec {
                vars: vars(2, Dom::NonNegB(0.0, 3.0)),
                rows: vec![row(&[0.0, 0.0], rel, rhs, "empty"), row(&[1.0, 1.0], Rel::Ge, 1.0, "r")],
                obj: vec![1.0, 1.0],
                offset: 0.0,
                sense: Sense::Min,
            },
        ));
    }
    // no rows
    v.push((
        "no-rows-bounded",
        LmSpec { vars: vars(2, Dom::NonNegB(1.0, 2.0)), rows: vec![], obj: vec![1.0, -1.0], offset: 0.5, sense: Sense::Max },
    ));
    v.push(("no-rows-unbounded", LmSpec { vars: vars(1, Dom::NonNeg), rows: vec![], obj: vec![1.0], offset: 0.0, sense: Sense::Max }));
    // degenerate vertex with ties
    v.push((
        "degenerate-ties",
        LmSpec {
            vars: vars(3, Dom::NonNeg),
            rows: vec![
                row(&[1.0, 1.0, 0.0], Rel::Le, 1.0, ""),
                row(&[1.0, 0.0, 1.0], Rel::Le, 1.0, ""),
                row(&[0.0, 1.0, 1.0], Rel::Le, 1.0, ""),
                row(&[1.0, 1.0, 1.0], Rel::Le, 1.5, ""),
            ],
            obj: vec![1.0, 1.0, 1.0],
            offset: 0.0,
            sense: Sense::Max,
        },
    ));
    // dependent equalities
    v.push((
        "dependent-equalities",
        LmSpec {
            vars: vars(3, Dom::NonNeg),
            rows: vec![
                row(&[1.0, 1.0, 1.0], Rel::Eq, 2.0, "e1"),
                row(&[2.0, 2.0, 2.0], Rel::Eq, 4.0, "e2"),
                row(&[1.0, -1.0, 0.0], Rel::Eq, 0.0, "e3"),
            ],
            obj: vec![1.0, 2.0, 3.0],
            offset: 0.0,
            sense: Sense::Min,
        },
    ));
    // knapsack MILP
    v.push((
        "knapsack",
        LmSpec {
            vars: vars(4, Dom::Bool),
            rows: vec![row(&[2.0, 3.0, 4.0, 5.0], Rel::Le, 7.0, "w")],
            obj: vec![3.0, 4.0, 5.0, 6.0],
            offset: 0.0,
            sense: Sense::Max,
        },
    ));
    // integer with negative range and fractional LP optimum
    v.push((
        "int-negative-range",
        LmSpec {
            vars: vec![("i".into(), Dom::Int(-3, 3)), ("x".into(), Dom::Real(-1.5, 1.5))],
            rows: vec![row(&[2.0, 1.0], Rel::Le, -2.5, "r")],
            obj: vec![1.0, 1.0],
            offset: 0.0,
            sense: Sense::Max,
        },
    ));
    // every ordered choice (with repetition) of 4 rows from a menu with three proportional equalities,
    // a fourth equality and two bounds: redundant rows in every position of a two-phase start
    let menu: [(&[f64], Rel, f64); 6] = [(&[1.0, 1.0], Rel::Eq, 4.0), (&[2.0, 2.0], Rel::Eq, 8.0), (&[3.0, 3.0], Rel::Eq, 12.0), (&[1.0, -1.0], Rel::Eq, 0.0), (&[1.0, 0.0], Rel::Le, 3.0), (&[0.0, 1.0], Rel::Le, 3.0)];
    let objs: [[f64; 2]; 4] = [[1.0, 0.0], [0.0, 1.0], [1.0, 1.0], [-1.0, 1.0]];
    for code in 0..(6usize.pow(4) * 4 * 2) {
        let mut c = code;
        let sense = if c % 2 == 0 { Sense::Min } else { Sense::Max };
        c /= 2;
        let obj = objs[c % 4];
        c /= 4;
        let mut rows = vec![];
        for k in 0..4 {
            let (coef, rel, rhs) = menu[c % 6];
            c /= 6;
            rows.push(row(coef, rel, rhs, &format!("r{k}")));
        }
        v.push(("redundant-rows", LmSpec { vars: vars(2, Dom::NonNeg), rows, obj: obj.to_vec(), offset: 1.0, sense }));
    }
    v
}

pub fn accepts(kind: SolverKind, spec: &LmSpec) -> bool {
    match kind {
        SolverKind::Milp | SolverKind::Auto => true,
        SolverKind::Clarabel => spec.all_continuous(),
        SolverKind::MicroReal | SolverKind::Simplex => spec.all_continuous() && spec.sense != Sense::Satisfy,
    }
}

/// C04 certificate; returns list of (signature, what)
pub fn certificate(kind: SolverKind, spec: &LmSpec, sol: &Sol) -> Vec<(String, String)> {
    let mut out = vec![];
    let s = kind.name();
    // every variable exactly one value
    let mut x = vec![f64::NAN; spec.vars.len()];
    let mut seen = vec![0usize; spec.vars.len()];
    for (name, val) in &sol.assignment {
        match spec.vars.iter().position(|v| &v.0 == name) {
            Some(i) => {
                seen[i] += 1;
                x[i] = *val;
            }
            None => out.push((format!("{s}:extra-variable"), format!("solution names unknown variable {name}"))),
        }
    }
    for (i, c) in seen.iter().enumerate() {
        if *c != 1 {
            out.push((format!("{s}:variable-count"), format!("variable {} has {} values", spec.vars[i].0, c)));
        }
    }
    if !out.is_empty() {
        return out;
    }
    if x.iter().any(|v| !v.is_finite()) || !sol.value.is_finite() {
        out.push((format!("{s}:non-finite"), format!("non-finite value in solution {:?} value {}", x, sol.value)));
        return out;
    }
    for (i, (name, d)) in spec.vars.iter().enumerate() {
        let (lo, hi) = d.bounds();
        if x[i] < lo - EPS * (1.0 + lo.abs()) || x[i] > hi + EPS * (1.0 + hi.abs()) {
            out.push((format!("{s}:bound-violated"), format!("{name}={} outside [{lo},{hi}]", x[i])));
        }
        if d.is_int() && (x[i] - x[i].round()).abs() > EPS {
            out.push((format!("{s}:integrality-violated"), format!("{name}={} not integral", x[i])));
        }
    }
    for (ri, r) in spec.rows.iter().enumerate() {
        let lhs: f64 = r.coef.iter().zip(&x).map(|(c, v)| c * v).sum();
        let tol = EPS * (1.0 + r.rhs.abs());
        let ok = match r.rel {
            Rel::Le => lhs <= r.rhs + tol,
            Rel::Ge => lhs >= r.rhs - tol,
            Rel::Eq => (lhs - r.rhs).abs() <= tol,
        };
        if !ok {
            out.push((format!("{s}:row-violated"), format!("row {ri} lhs={lhs} {:?} rhs={}", r.rel, r.rhs)));
        }
    }
    let objv: f64 = spec.obj.iter().zip(&x).map(|(c, v)| c * v).sum::<f64>() + spec.offset;
    if (objv - sol.value).abs() > EPS * objv.abs().max(1.0) {
        out.push((format!("{s}:objective-mismatch"), format!("reported {} but c.x+offset={}", sol.value, objv)));
    }
    for (name, act) in &sol.constraints {
        if name.is_empty() {
            continue;
        }
        let mut matched = false;
        let mut any = false;
        for r in spec.rows.iter().filter(|r| &r.name == name) {
            any = true;
            let lhs: f64 = r.coef.iter().zip(&x).map(|(c, v)| c * v).sum();
            if (lhs - act).abs() <= EPS * lhs.abs().max(1.0) {
                matched = true;
            }
        }
        if !any {
            out.push((format!("{s}:activity-unknown-row"), format!("activity reported for unknown row {name}")));
        } else if !matched {
            out.push((format!("{s}:activity-mismatch"), format!("row {name} activity {act} != lhs")));
        }
    }
    out
}

/// coarse structural class of a model, used to attribute hangs/aborts
pub fn shape_class(spec: &LmSpec) -> String {
    let free = spec.vars.iter().filter(|v| { let (a, b) = v.1.bounds(); a == f64::NEG_INFINITY && b == f64::INFINITY }).count();
    let ints = spec.vars.iter().filter(|v| v.1.is_int()).count();
    format!("free{}{}", free.min(2), if ints > 0 { "-int" } else { "" })
}

/// structural class used in the signature of interior-point (Clarabel) wrong answers
pub fn degenerate_shape(spec: &LmSpec) -> &'static str {
    let eqs: Vec<&Row> = spec.rows.iter().filter(|r| r.rel == Rel::Eq).collect();
    for i in 0..eqs.len() {
        for j in i + 1..eqs.len() {
            for k in [1.0f64, -1.0, 2.0, -2.0, 0.5, -0.5] {
                let prop = eqs[i].coef.iter().zip(&eqs[j].coef).all(|(a, b)| *a == k * *b);
                let nonzero = eqs[i].coef.iter().any(|c| *c != 0.0);
                if prop && nonzero && eqs[i].rhs != k * eqs[j].rhs {
                    return "contradictory-parallel-equalities";
                }
            }
        }
    }
    if spec.rows.iter().any(|r| r.coef.iter().all(|c| *c == 0.0)) {
        return "empty-row";
    }
    // rank-deficient equality block
    if eqs.len() >= 2 {
        let mut m: Vec<Vec<f64>> = eqs.iter().map(|r| r.coef.clone()).collect();
        let mut rank = 0;
        let ncol = spec.vars.len();
        for col in 0..ncol {
            if let Some(p) = (rank..m.len()).find(|&r| m[r][col] != 0.0) {
                m.swap(rank, p);
                for r in 0..m.len() {
                    if r != rank && m[r][col] != 0.0 {
                        let f = m[r][col] / m[rank][col];
                        for c in 0..ncol {
                            m[r][c] -= f * m[rank][c];
                        }
                    }
                }
                rank += 1;
            }
        }
        if rank < eqs.len() {
            return "dependent-equalities";
        }
    }
    let free = spec.vars.iter().any(|v| v.1.bounds() == (f64::NEG_INFINITY, f64::INFINITY));
    if !eqs.is_empty() && free {
        return "equality-rows+free-variables";
    }
    "regular"
}

pub fn oracle(spec: &LmSpec) -> LpResult {
    exact::solve_milp(&spec.to_exact())
}

fn oracle_name(r: &LpResult) -> &'static str {
    match r {
        LpResult::Optimal { .. } => "optimal",
        LpResult::Infeasible => "infeasible",
        LpResult::Unbounded => "unbounded",
    }
}

/// run one model through every solver; apply C04 or C05 verdicts
pub fn judge(spec: &LmSpec, which: &str, l: &mut Local) {
    if crate::core::trace() {
        eprintln!("TRACE model {}", spec.show());
    }
    let lm = spec.to_rooc();
    let orc = oracle(spec);
    l.count(&format!("oracle:{}", oracle_name(&orc)));
    if matches!(orc, LpResult::Optimal { .. }) && !spec.rows.is_empty() {
        l.nontrivial(&spec.canon_hash());
    }
    l.sample(|| json!({"model": spec.show(), "oracle": oracle_name(&orc)}));
    for kind in ALL_SOLVERS {
        if !accepts(kind, spec) {
            continue;
        }
        crate::core::set_phase(&format!("{} {}", kind.name(), shape_class(spec)));
        let (out, sol) = run_solver(kind, &lm);
        let s = kind.name();
        let oname = match &out {
            Outcome::Ok => "ok".to_string(),
            Outcome::Infeasible => "infeasible".into(),
            Outcome::Unbounded => "unbounded".into(),
            Outcome::Rejected(r) => format!("rejected:{r}"),
            Outcome::Other(_) => "other".into(),
            Outcome::Panic(_) => "panic".into(),
        };
        l.count(&format!("{s}:{oname}"));
        let case = || json!({"model": spec.show(), "solver": s, "outcome": format!("{:?}", out), "oracle": oracle_name(&orc), "solution": sol.as_ref().map(|s| format!("{:?}", s))});
        if which == "C04" {
            if let (Outcome::Ok, Some(sol)) = (&out, &sol) {
                l.count("certificates_checked");
                for (sig, what) in certificate(kind, spec, sol) {
                    let sig = if kind == SolverKind::Clarabel { sig.replacen("clarabel", &format!("clarabel[{}]", degenerate_shape(spec)), 1) } else { sig };
                    l.violation(sig, what, case());
                }
            }
            if let Outcome::Panic(p) = &out {
                l.violation(format!("{s}:panic"), format!("solver panicked: {p}"), case());
            }
            continue;
        }
        // C05
        let s_owned = if kind == SolverKind::Clarabel { format!("clarabel[{}]", degenerate_shape(spec)) } else { s.to_string() };
        let s = s_owned.as_str();
        match (&out, &orc) {
            (Outcome::Ok, LpResult::Optimal { value, .. }) => {
                if spec.sense != Sense::Satisfy {
                    let z = to_f64(value);
                    let v = sol.as_ref().unwrap().value;
                    if !((v - z).abs() <= EPS * z.abs().max(1.0)) {
                        l.violation(format!("{s}:wrong-optimum"), format!("returned {v}, true optimum {z}"), case());
                    }
                }
            }
            (Outcome::Ok, o) => l.violation(format!("{s}:solution-for-{}", oracle_name(o)), format!("returned a solution but the model is {}", oracle_name(o)), case()),
            (Outcome::Infeasible, LpResult::Infeasible) => {}
            (Outcome::Infeasible, o) => l.violation(format!("{s}:infeasible-for-{}", oracle_name(o)), format!("reported infeasible but the model is {}", oracle_name(o)), case()),
            (Outcome::Unbounded, LpResult::Unbounded) => {}
            (Outcome::Unbounded, o) => l.violation(format!("{s}:unbounded-for-{}", oracle_name(o)), format!("reported unbounded but the model is {}", oracle_name(o)), case()),
            (Outcome::Rejected(r), _) => {
                l.violation(format!("{s}:unexpected-rejection"), format!("model inside the solver's documented domain rejected: {r}"), case());
            }
            (Outcome::Other(e), o) => {
                if kind.must_answer() {
                    let short: String = e.chars().take(24).collect();
                    l.violation(format!("{s}:no-verdict-for-{}:{}", oracle_name(o), short), format!("simplex-based solver gave no dedicated verdict ({e}) on a model that is {}", oracle_name(o)), case());
                } else {
                    l.count(&format!("{s}:non-answer-tolerated"));
                }
            }
            (Outcome::Panic(p), _) => l.violation(format!("{s}:panic"), format!("solver panicked: {p}"), case()),
        }
    }
}

fn oracle_selfcheck(run: &mut Run) {
    // LP oracle vs brute-force vertex enumeration on a small family with pointed feasible sets
    let fam = LmFamily {
        name: "oracle-selfcheck",
        n: 2,
        m: 2,
        doms: vec![Dom::NonNeg, Dom::Real(-2.0, 3.0), Dom::Real(f64::NEG_INFINITY, 2.0)],
        coefs: vec![-1.0, 0.0, 1.0, 2.0],
        rhss: vec![-1.0, 2.0],
        rels: vec![Rel::Le, Rel::Ge, Rel::Eq],
        objs: vec![-1.0, 1.0],
        senses: vec![Sense::Min, Sense::Max],
        offsets: vec![0.0],
        named: false,
    };
    let size = if run.quick() { fam.size().min(20_000) } else { fam.size() };
    let f2 = fam.clone();
    run.family("oracle-selfcheck", size, move |i, l| {
        let spec = f2.get(i);
        let lp = spec.to_exact();
        let a = exact::solve_lp(&lp);
        let b = exact::brute_force_opt(&lp).unwrap();
        let agree = match (&a, &b) {
            (LpResult::Optimal { value: va, .. }, LpResult::Optimal { value: vb, .. }) => va == vb,
            (LpResult::Infeasible, LpResult::Infeasible) => true,
            (LpResult::Unbounded, LpResult::Optimal { .. }) => true, // brute force cannot see rays
            _ => false,
        };
        l.count("oracle_selfcheck_cases");
        if !agree {
            l.count("oracle_selfcheck_disagreements");
            l.violation("ORACLE-SELFCHECK", format!("simplex oracle {:?} vs vertex enumeration {:?}", a, b), json!({"model": spec.show()}));
        }
    });
}

pub fn run(which: &str, mut run: Run) -> ! {
    crate::core::silence_panics();
    run.isolate = true;
    run.case_timeout_s = 3.0;
    run.rule = "every member of each finite LinearModel family (mixed-radix product of domain/coefficient/relation/rhs/objective menus, plus named specials, plus the linear models the compiler produces for the C02 objective families) is built through the public LinearModel API and sent to every built-in solver entry point that accepts it; distinct = canonical model text; non-trivial = feasible-and-bounded per the exact oracle with at least one row".into();
    run.assume("exact rational LP/MILP oracle (two-phase Bland simplex over BigRational + integer box enumeration), cross-checked against vertex enumeration in family oracle-selfcheck");
    run.assume("well-scaled coefficients only (|c| in [0.25,125]); tolerance 1e-6 relative as stated in the property");
    run.assume("small-scope hypothesis: n<=4 variables, m<=4 rows");
    if which == "C05" {
        oracle_selfcheck(&mut run);
        if run.counter("oracle_selfcheck_disagreements") > 0 {
            run.machinery_errors.push("exact oracle disagrees with vertex enumeration".into());
        }
    }
    let sp = specials();
    let which_s = which.to_string();
    {
        let sp2 = sp.clone();
        let w = which_s.clone();
        run.family("F4-specials", sp.len() as u64, move |i, l| {
            let (name, spec) = &sp2[i as usize];
            l.count(&format!("special:{name}"));
            judge(spec, &w, l);
        });
    }
    for fam in families(run.quick()) {
        let f2 = fam.clone();
        let w = which_s.clone();
        run.family(fam.name, fam.size(), move |i, l| {
            let spec = f2.get(i);
            judge(&spec, &w, l);
        });
    }
    // linear models as the compiler produces them (auxiliaries, big-M rows, selector equalities,
    // published derived bounds): objective models of the C02 family and the multi-variable family D
    {
        let w = which_s.clone();
        let n = crate::props::c02::family_size_pub(1, true);
        run.family("K-compiled-objective-models", n, move |i, l| {
            let case = crate::props::c02::family_pub(i, 1, true);
            match crate::core::catch(|| case.model.compile()) {
                Ok(Ok(lm)) => match LmSpec::from_rooc(&lm) {
                    Some(spec) => {
                        l.count("compiled-models");
                        judge(&spec, &w, l);
                    }
                    None => l.count("compiled-models:strict-rows"),
                },
                _ => l.count("compiled-models:rejected"),
            }
        });
        let w = which_s.clone();
        let nd = crate::props::c02::family_d_size(0);
        run.family("KD-compiled-multi-variable-models", nd, move |i, l| {
            let case = crate::props::c02::family_d(i, 0);
            if let Ok(Ok(lm)) = crate::core::catch(|| case.model.compile()) {
                if let Some(spec) = LmSpec::from_rooc(&lm) {
                    l.count("compiled-models");
                    judge(&spec, &w, l);
                }
            }
        });
    }
    for s in ["milp:ok", "milp:infeasible", "milp:unbounded", "clarabel:ok", "simplex:ok", "microlp_real:ok", "auto:ok", "oracle:optimal", "oracle:infeasible", "oracle:unbounded"] {
        run.require(s);
    }
    run.finish()
}
