//! C07 — derived variable ranges are sound (every prefix of the propagation work-list, published
//! domains, and forward ranges of sub-expressions over boxes).
use crate::core::{Digits, Local, Run};
use crate::exact::{Q, q, qf, to_f64};
use crate::linsem::*;
use crate::lm::{Dom, Sense};
use crate::props::c01::{CTX_NAMES, Case, cores, ctx, drop_unreferenced, family_a, family_a_size, family_ax, family_ax_size, family_c, family_c_size, family_d, family_d_size, grid};
use crate::refsem::{Env, eval};
use rooc::model_transformer::Exp;
use serde_json::json;
use std::collections::BTreeMap;

const TOL: f64 = 1e-9;

/// exact range of every declared variable over the source-feasible set (inner approximation when
/// more than one continuous variable is present: extra ones are sampled on a grid). None = unbounded.
pub struct SourceRanges {
    pub feasible: bool,
    pub ranges: BTreeMap<String, (Option<Q>, Option<Q>)>,
    pub witnesses: Vec<Env>,
}

pub fn source_ranges(m: &SrcModel) -> Option<SourceRanges> {
    let cont: Vec<String> = m.continuous_vars().iter().map(|&i| m.vars[i].0.clone()).collect();
    let x = cont.first().cloned();
    if let Some(x) = &x {
        if m.cons.iter().any(|c| occurs_under_logic(&c.lhs, x, false) || occurs_under_logic(&c.rhs, x, false)) {
            return None;
        }
    }
    let mut lo: BTreeMap<String, Option<Q>> = BTreeMap::new();
    let mut hi: BTreeMap<String, Option<Q>> = BTreeMap::new();
    let mut seen: BTreeMap<String, bool> = BTreeMap::new();
    let mut witnesses = vec![];
    let mut feasible = false;
    let mut record = |env: &Env, unb_lo: Option<&str>, unb_hi: Option<&str>, lo: &mut BTreeMap<String, Option<Q>>, hi: &mut BTreeMap<String, Option<Q>>| {
        for (k, v) in env {
            let first = !seen.contains_key(k);
            seen.insert(k.clone(), true);
            if first {
                lo.insert(k.clone(), Some(v.clone()));
                hi.insert(k.clone(), Some(v.clone()));
            } else {
                if let Some(Some(c)) = lo.get(k) {
                    if v < c {
                        lo.insert(k.clone(), Some(v.clone()));
                    }
                }
                if let Some(Some(c)) = hi.get(k) {
                    if v > c {
                        hi.insert(k.clone(), Some(v.clone()));
                    }
                }
            }
            if unb_lo == Some(k.as_str()) {
                lo.insert(k.clone(), None);
            }
            if unb_hi == Some(k.as_str()) {
                hi.insert(k.clone(), None);
            }
        }
    };
    for d in discrete_assignments(m, x.as_deref(), &grid()) {
        match &x {
            None => match m.sat(&d) {
                Ok(true) => {
                    feasible = true;
                    if witnesses.len() < 3 {
                        witnesses.push(d.clone());
                    }
                    record(&d, None, None, &mut lo, &mut hi);
                }
                Ok(false) => {}
                Err(_) => return None,
            },
            Some(x) => {
                let pts = source_breakpoints(m, x, &d);
                let tps = test_points(&pts);
                let n = tps.len();
                for (k, t) in tps.iter().enumerate() {
                    let mut env = d.clone();
                    env.insert(x.clone(), t.clone());
                    match m.sat(&env) {
                        Ok(true) => {
                            feasible = true;
                            if witnesses.len() < 3 {
                                witnesses.push(env.clone());
                            }
                            // the outermost test points lie beyond every breakpoint: feasible there = unbounded
                            let ul = if k == 0 { Some(x.as_str()) } else { None };
                            let uh = if k == n - 1 { Some(x.as_str()) } else { None };
                            record(&env, ul, uh, &mut lo, &mut hi);
                        }
                        Ok(false) => {}
                        Err(_) => return None,
                    }
                }
            }
        }
    }
    let ranges = lo.keys().map(|k| (k.clone(), (lo[k].clone(), hi[k].clone()))).collect();
    Some(SourceRanges { feasible, ranges, witnesses })
}

fn contains(lo: f64, hi: f64, s: &(Option<Q>, Option<Q>)) -> Result<(), String> {
    if lo.is_nan() || hi.is_nan() {
        return Err("NaN bound".into());
    }
    match &s.0 {
        None => {
            if lo != f64::NEG_INFINITY {
                return Err(format!("feasible values are unbounded below but the derived lower bound is {lo}"));
            }
        }
        Some(v) => {
            let fv = to_f64(v);
            if lo > fv + TOL * fv.abs().max(1.0) {
                return Err(format!("derived lower bound {lo} excludes the feasible value {v}"));
            }
        }
    }
    match &s.1 {
        None => {
            if hi != f64::INFINITY {
                return Err(format!("feasible values are unbounded above but the derived upper bound is {hi}"));
            }
        }
        Some(v) => {
            let fv = to_f64(v);
            if hi < fv - TOL * fv.abs().max(1.0) {
                return Err(format!("derived upper bound {hi} excludes the feasible value {v}"));
            }
        }
    }
    Ok(())
}

fn check_model(case: &Case, l: &mut Local) {
    let case = &drop_unreferenced(case);
    let m = &case.model;
    let Some(sr) = source_ranges(m) else {
        l.count("skipped:not-decidable");
        return;
    };
    l.count(if sr.feasible { "source:feasible" } else { "source:infeasible" });
    let model = m.to_rooc();
    let case_json = |what: String| json!({"model": m.show(), "what": what, "source_ranges": sr.ranges.iter().map(|(k, v)| (k.clone(), format!("[{:?},{:?}]", v.0.as_ref().map(|q| q.to_string()), v.1.as_ref().map(|q| q.to_string())))).collect::<Vec<_>>(), "witnesses": sr.witnesses.iter().map(|e| e.iter().map(|(k, v)| format!("{k}={v}")).collect::<Vec<_>>()).collect::<Vec<_>>()});
    let normalized: Vec<_> = model.constraints().iter().map(|c| c.normalized()).collect();
    l.sample(|| case_json("sample".into()));
    for (flavour, cons) in [("raw", model.constraints().clone()), ("normalized", normalized)] {
        // every prefix of the work-list: budgets 0..K where K is the first budget that is not exhausted
        let mut budget = 0usize;
        loop {
            let an = match crate::core::catch(|| rooc::verif_bounds::analyze_bounds(model.domain(), &cons, Some(budget))) {
                Ok(a) => a,
                Err(p) => {
                    l.violation(format!("panic:analyze:{}", case.signature), p.clone(), case_json(p));
                    return;
                }
            };
            l.count("analyses");
            l.max("step_budget", budget as u64);
            let infeasible = an.detected_infeasible();
            if infeasible && sr.feasible {
                l.violation(format!("detected-infeasible-but-feasible:{}", case.signature), format!("[{flavour}, budget {budget}] the analysis declares the model infeasible but it has a feasible assignment"), case_json(format!("budget {budget}")));
                return;
            }
            for (name, lo, hi) in an.variable_bounds() {
                if lo.is_nan() || hi.is_nan() {
                    l.violation(format!("nan-bound:{}", case.signature), format!("[{flavour}, budget {budget}] {name} has a NaN bound"), case_json(format!("budget {budget}")));
                    return;
                }
                if lo > hi + TOL && !infeasible {
                    l.violation(format!("empty-range-without-infeasibility:{}", case.signature), format!("[{flavour}, budget {budget}] {name} in [{lo},{hi}] but infeasibility is not recorded"), case_json(format!("budget {budget}")));
                    return;
                }
                if let Some(s) = sr.ranges.get(&name) {
                    if let Err(e) = contains(lo, hi, s) {
                        l.violation(format!("unsound-variable-range:{}", case.signature), format!("[{flavour}, budget {budget}] {name}: {e}"), case_json(format!("budget {budget} {name} in [{lo},{hi}]")));
                        return;
                    }
                }
            }
            // published domains after applying (integer rounding, Boolean kept)
            for (name, dv) in an.applied_domain(model.domain()) {
                let d = Dom::from_vt(dv.get_type());
                let (lo, hi) = d.bounds();
                if let Some(s) = sr.ranges.get(&name) {
                    if let Err(e) = contains(lo, hi, s) {
                        l.violation(format!("unsound-published-domain:{}", case.signature), format!("[{flavour}, budget {budget}] {name}: {e}"), case_json(format!("budget {budget} {name} published as {}", d.show())));
                        return;
                    }
                }
            }
            if !an.reached_limit() || budget >= 200 {
                if an.reached_limit() {
                    l.count("budget-cap-200-reached");
                }
                break;
            }
            budget += 1;
        }
    }
    // the compiled linear model's published domains
    if let Ok(Ok(lm)) = crate::core::catch(|| m.compile()) {
        l.count("compiled");
        l.nontrivial(&m.show());
        for (name, dv) in lm.domain() {
            let d = Dom::from_vt(dv.get_type());
            let (lo, hi) = d.bounds();
            if let Some(s) = sr.ranges.get(name) {
                if let Err(e) = contains(lo, hi, s) {
                    l.violation(format!("unsound-compiled-domain:{}", case.signature), format!("{name}: {e}"), case_json(format!("{name} published as {}", d.show())));
                    return;
                }
            }
        }
    }
    l.count("models_checked");
}

// ---------- part (b): forward ranges of expressions over boxes ----------
fn boxes() -> Vec<(&'static str, Dom)> {
    vec![
        ("Real(-3,3)", Dom::Real(-3.0, 3.0)),
        ("Real(-inf,2)", Dom::Real(f64::NEG_INFINITY, 2.0)),
        ("Real(-1,inf)", Dom::Real(-1.0, f64::INFINITY)),
        ("Real", Dom::Free),
        ("Real(2,2)", Dom::Real(2.0, 2.0)),
        ("Real(-4,-1)", Dom::Real(-4.0, -1.0)),
        ("NonNeg(0.5,4)", Dom::NonNegB(0.5, 4.0)),
        ("Int(-2,3)", Dom::Int(-2, 3)),
        ("Real(-0.3,1.9)", Dom::Real(-0.3, 1.9)),
    ]
}

fn expr_size(depth: usize) -> u64 {
    let nctx: u64 = (0..=depth as u32).map(|k| (CTX_NAMES.len() as u64 - 1).pow(k)).sum();
    cores().len() as u64 * nctx * boxes().len() as u64
}

fn check_expr(i: u64, depth: usize, l: &mut Local) {
    let bx = boxes();
    let cs = cores();
    let mut d = Digits(i);
    let (bname, dom) = d.of(&bx).clone();
    let (cname, core) = d.of(&cs).clone();
    let nper = CTX_NAMES.len() as u64 - 1;
    let mut rest = d.0;
    let mut len = 0usize;
    let mut count = 1u64;
    while len < depth && rest >= count {
        rest -= count;
        count *= nper;
        len += 1;
    }
    let mut e: Exp = core;
    let mut names = vec![];
    let mut r = rest;
    for _ in 0..len {
        let k = (r % nper) as usize + 1;
        r /= nper;
        e = ctx(k, e);
        names.push(CTX_NAMES[k]);
    }
    let sig = format!("core={cname} ctx=[{}] box={bname}", names.join(","));
    let m = SrcModel { vars: vec![("b".into(), Dom::Bool), ("c".into(), Dom::Bool), ("x".into(), dom.clone())], cons: vec![], sense: Sense::Min, obj: e.clone() };
    let model = m.to_rooc();
    let an = match crate::core::catch(|| rooc::verif_bounds::analyze_bounds(model.domain(), &[], None)) {
        Ok(a) => a,
        Err(p) => {
            l.violation(format!("panic:bounds_of:{sig}"), p.clone(), json!({"expression": format!("{}", e)}));
            return;
        }
    };
    let (blo, bhi) = match crate::core::catch(|| an.bounds_of(&e)) {
        Ok(b) => b,
        Err(p) => {
            l.violation(format!("panic:bounds_of:{sig}"), p.clone(), json!({"expression": format!("{}", e)}));
            return;
        }
    };
    l.count("expressions_checked");
    l.nontrivial(&format!("{}|{}", e, bname));
    l.sample(|| json!({"expression": format!("{}", e), "box": bname, "bounds_of": [blo, bhi]}));
    // exact range over the box: discrete b, c; x by breakpoints (or its integer values)
    let (xlo, xhi) = dom.bounds();
    let mut rmin: Option<Option<Q>> = None; // Some(None) = -inf
    let mut rmax: Option<Option<Q>> = None;
    let mut upd = |v: Option<Q>, is_min: bool, unbounded: bool| {
        let slot = if is_min { &mut rmin } else { &mut rmax };
        if unbounded {
            *slot = Some(None);
            return;
        }
        let v = v.unwrap();
        match slot {
            None => *slot = Some(Some(v)),
            Some(None) => {}
            Some(Some(c)) => {
                if (is_min && &v < c) || (!is_min && &v > c) {
                    *slot = Some(Some(v));
                }
            }
        }
    };
    for bv in 0..2 {
        for cv in 0..2 {
            let mut env = Env::new();
            env.insert("b".into(), q(bv));
            env.insert("c".into(), q(cv));
            let f = |t: &Q| {
                let mut e2 = env.clone();
                e2.insert("x".into(), t.clone());
                eval(&e, &e2).ok()
            };
            let xs: Vec<Q> = if dom.is_int() {
                (xlo as i64..=xhi as i64).map(q).collect()
            } else {
                let mut pts: Vec<Q> = breakpoints(&e, "x", &env).into_iter().filter(|p| (!xlo.is_finite() || *p >= qf(xlo)) && (!xhi.is_finite() || *p <= qf(xhi))).collect();
                if xlo.is_finite() {
                    pts.push(qf(xlo));
                }
                if xhi.is_finite() {
                    pts.push(qf(xhi));
                }
                if pts.is_empty() {
                    pts.push(q(0));
                }
                pts.sort();
                pts.dedup();
                // unbounded sides: slope beyond the outermost point
                if !xlo.is_finite() {
                    let p = pts[0].clone();
                    if let (Some(a), Some(b2)) = (f(&p), f(&(&p - q(1)))) {
                        if b2 < a {
                            upd(None, true, true);
                        }
                        if b2 > a {
                            upd(None, false, true);
                        }
                    }
                }
                if !xhi.is_finite() {
                    let p = pts[pts.len() - 1].clone();
                    if let (Some(a), Some(b2)) = (f(&p), f(&(&p + q(1)))) {
                        if b2 < a {
                            upd(None, true, true);
                        }
                        if b2 > a {
                            upd(None, false, true);
                        }
                    }
                }
                pts
            };
            for t in xs {
                if let Some(v) = f(&t) {
                    upd(Some(v.clone()), true, false);
                    upd(Some(v), false, false);
                }
            }
        }
    }
    let (Some(rmin), Some(rmax)) = (rmin, rmax) else { return };
    if let Err(e2) = contains(blo, bhi, &(rmin.clone(), rmax.clone())) {
        l.violation(format!("unsound-expression-range:{sig}"), format!("bounds_of = [{blo},{bhi}]: {e2}"), json!({"expression": format!("{}", e), "box": bname, "exact_range": [rmin.map(|v| v.to_string()), rmax.map(|v| v.to_string())], "bounds_of": [blo, bhi]}));
    }
}

/// family I: one integer variable bounded through a row whose coefficient makes the propagated bound
/// inexact in floating point (a * i REL fl(a * k)): the rounding of the published integer range must
/// absorb the last-bit error in the sound direction
const INEXACT_COEFS: [f64; 16] = [0.1, 0.3, 0.7, 0.9, 1.1, 1.9, 2.3, 2.7, 11.5, 1.0 / 3.0, -0.1, -0.3, -0.9, -1.9, -2.7, 3.0];
fn family_i_size() -> u64 {
    (INEXACT_COEFS.len() * 9 * 3 * 2 * 2 * 2) as u64
}
fn family_i(i: u64) -> Case {
    use crate::exact::Rel;
    use rooc::BinOp;
    let mut d = Digits(i);
    let second_row = d.pick(2) == 1;
    let coef_right = d.pick(2) == 1;
    let side = d.pick(2);
    let rel = *d.of(&[Rel::Ge, Rel::Le, Rel::Eq]);
    let k = d.pick(9) as f64 - 4.0;
    let a = *d.of(&INEXACT_COEFS);
    let term = if coef_right { bin(BinOp::Mul, var("i"), num(a)) } else { bin(BinOp::Mul, num(a), var("i")) };
    let rhs = num(a * k);
    let (lhs, rhs, rel) = if side == 0 {
        (term, rhs, rel)
    } else {
        (rhs, term, match rel { Rel::Ge => Rel::Le, Rel::Le => Rel::Ge, Rel::Eq => Rel::Eq })
    };
    let mut cons = vec![SrcCons { lhs, rel, rhs, bare: false, name: "r".into() }];
    let mut vars = vec![("i".to_string(), Dom::Int(-6, 7))];
    if second_row {
        // a second integer tied to the first through another inexact row
        vars.push(("j".to_string(), Dom::Int(-20, 20)));
        cons.push(SrcCons { lhs: bin(BinOp::Mul, num(0.7), var("j")), rel: Rel::Ge, rhs: bin(BinOp::Mul, num(2.1), var("i")), bare: false, name: "s".into() });
    }
    Case { model: SrcModel { vars, cons, sense: Sense::Satisfy, obj: num(0.0) }, signature: format!("inexact-integer-bound a={a} k={k} rel={:?} side={side} coef_right={coef_right} second_row={second_row}", rel) }
}

/// family IS: strict rows over integral variables with whole coefficients and whole or fractional constants
const STRICT_COEFS: [(f64, f64); 6] = [(1.0, 0.0), (1.0, 1.0), (2.0, -1.0), (-1.0, 0.0), (3.0, 2.0), (-1.0, -1.0)];
const STRICT_CONSTS: [f64; 7] = [-0.5, 0.0, 0.5, 1.5, 3.0, 4.0, 4.5];
fn family_is_size() -> u64 {
    (STRICT_COEFS.len() * STRICT_CONSTS.len() * 2 * 2 * 3) as u64
}
fn family_is(i: u64) -> Case {
    use crate::exact::Rel;
    use rooc::BinOp;
    let mut d = Digits(i);
    let (a, b) = *d.of(&STRICT_COEFS);
    let c = *d.of(&STRICT_CONSTS);
    let rel = *d.of(&[Rel::Le, Rel::Ge]);
    let side = d.pick(2);
    let doms = d.pick(3);
    let mut e = bin(BinOp::Mul, num(a), var("i"));
    if b != 0.0 {
        e = bin(BinOp::Add, e, bin(BinOp::Mul, num(b), var("j")));
    }
    let (lhs, rhs, rel) = if side == 0 { (e, num(c), rel) } else { (num(c), e, match rel { Rel::Le => Rel::Ge, _ => Rel::Le }) };
    let vars = match doms {
        0 => vec![("i".to_string(), Dom::Int(0, 10)), ("j".to_string(), Dom::Int(0, 3))],
        1 => vec![("i".to_string(), Dom::Int(-3, 3)), ("j".to_string(), Dom::Bool)],
        _ => vec![("i".to_string(), Dom::Bool), ("j".to_string(), Dom::Int(-2, 2))],
    };
    let cons = vec![SrcCons { lhs, rel, rhs, bare: false, name: format!("{}r", SrcModel::STRICT_ROW) }];
    Case { model: SrcModel { vars, cons, sense: Sense::Satisfy, obj: num(0.0) }, signature: format!("strict-integer-row a={a} b={b} c={c} rel={:?} side={side} doms={doms}", rel) }
}

/// family TS: a tiny coefficient next to a huge range (each factor harmless alone): y + a * x REL c with
/// |a| in {2^-33, 2^-20} (exact in binary; 2^-33 < 1e-9) and x in [0, 2^40], so that a * x spans up to 128
const TINY_COEFS: [f64; 4] = [1.0 / 8589934592.0, -1.0 / 8589934592.0, 1.0 / 1048576.0, -1.0 / 1048576.0];
fn family_ts_size() -> u64 {
    (TINY_COEFS.len() * 2 * 2 * 2 * 3) as u64
}
fn family_ts(i: u64) -> Case {
    use crate::exact::Rel;
    use rooc::BinOp;
    let mut d = Digits(i);
    let a = *d.of(&TINY_COEFS);
    let rel = *d.of(&[Rel::Ge, Rel::Le]);
    let tiny_first = d.pick(2) == 1;
    let side = d.pick(2);
    let c = *d.of(&[50.0, -50.0, 100.0]);
    let term = bin(BinOp::Mul, num(a), var("x"));
    let e = if tiny_first { bin(BinOp::Add, term, var("y")) } else { bin(BinOp::Add, var("y"), term) };
    let (lhs, rhs, rel) = if side == 0 { (e, num(c), rel) } else { (num(c), e, match rel { Rel::Ge => Rel::Le, _ => Rel::Ge }) };
    let vars = vec![("x".to_string(), Dom::Real(0.0, 1099511627776.0)), ("y".to_string(), Dom::Real(-1000.0, 1000.0))];
    let cons = vec![SrcCons { lhs, rel, rhs, bare: false, name: "r".into() }];
    Case { model: SrcModel { vars, cons, sense: Sense::Satisfy, obj: num(0.0) }, signature: format!("tiny-coefficient-wide-range a={a:e} c={c} rel={:?} side={side} tiny_first={tiny_first}", rel) }
}

pub fn run(mut run: Run) -> ! {
    crate::core::silence_panics();
    run.isolate = true;
    run.case_timeout_s = 120.0;
    let quick = run.quick();
    // quick = chains of <= 2 contexts over reduced menus and of <= 1 context over the full menus; thorough = chains of <= 3 over the full menus
    let depth = if quick { 2 } else { 3 };
    run.rule = format!("(a) every model of the C01 families A (cores x context chains x relations x constants x declaration forms, depth {depth}), AX (depth <= 1 over a single-point integer range and a finite range of +-1e18), C (bound feeders x consumers), D (blocks over three variables with different ranges, every context) and I (an integer variable bounded through a * i REL fl(a * k) for 16 coefficients that are inexact in binary floating point x k in -4..4 x 3 relations x both sides x coefficient left/right, alone or chained to a second integer) and IS (strict rows a*i + b*j < c or > c over integral variables, whole coefficients, whole and fractional constants, both sides) and TS (y + a*x REL c with |a| = 2^-33 or 2^-20 and x in [0, 2^40], either term order, both sides) is analysed through the verif_hooks view of the bounds analysis with EVERY step budget 0..K (K = first budget that is not exhausted; each prefix of the propagation work-list is a stopping point), on the raw and on the normalised constraints; every derived variable range, every published domain (integer rounding applied) and the compiled model's domains must contain the exact range of that variable over the source-feasible set, never be NaN, be non-empty unless infeasibility is recorded, and infeasibility may only be recorded for infeasible models; (b) bounds_of for every core-in-context expression over 9 boxes (finite, half-infinite, infinite, degenerate, negative, integer, non-dyadic) must contain the exact range of the piecewise-linear expression; distinct = model / expression text");
    run.assume("exact source-feasible ranges from the region partition of one continuous variable (other continuous variables on a rational grid: an inner approximation, sound for this one-sided check); tolerance 1e-9 relative, the analyser's own");
    if quick {
        // chains of <= 2 contexts over the reduced menus, chains of <= 1 context over the full menus
        let sa2 = family_a_size(2, true);
        run.family("A2-models-x-step-budgets", sa2, move |i, l| check_model(&family_a(i, 2, true), l));
        let sa1 = family_a_size(1, false);
        run.family("A1-models-x-step-budgets", sa1, move |i, l| check_model(&family_a(i, 1, false), l));
    } else {
        let sa = family_a_size(depth, false);
        run.family("A-models-x-step-budgets", sa, move |i, l| {
            let c = family_a(i, depth, false);
            check_model(&c, l);
        });
    }
    run.family("AX-single-point-integer-range-x-step-budgets", family_ax_size(), |i, l| check_model(&family_ax(i, 0), l));
    run.family("AXH-huge-finite-range-x-step-budgets", family_ax_size(), |i, l| check_model(&family_ax(i, 1), l));
    run.family("C-feeders-x-step-budgets", family_c_size(), |i, l| {
        let c = family_c(i);
        check_model(&c, l);
    });
    let edepth = depth.min(2);
    run.family("D-several-continuous-variables", family_d_size(1), |i, l| {
        let c = family_d(i, 1);
        check_model(&c, l);
    });
    run.family("IS-strict-rows-over-integers", family_is_size(), |i, l| {
        let c = family_is(i);
        check_model(&c, l);
    });
    run.family("I-inexact-integer-bounds", family_i_size(), |i, l| {
        let c = family_i(i);
        check_model(&c, l);
    });
    run.family("TS-tiny-coefficient-x-wide-range", family_ts_size(), |i, l| {
        let c = family_ts(i);
        check_model(&c, l);
    });
    run.family("E-expression-ranges", expr_size(edepth), move |i, l| check_expr(i, edepth, l));
    for k in ["analyses", "models_checked", "expressions_checked", "source:feasible", "source:infeasible", "compiled"] {
        run.require(k);
    }
    run.finish()
}
