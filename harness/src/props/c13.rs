//! C13 — standard-form conversion preserves the problem.
use crate::core::{Local, Run};
use crate::exact::{self, Lp, LpResult, Q, Rel, q, qf};
use crate::lm::{Dom, LmFamily, LmSpec, Sense};
use num_traits::{Signed, Zero};
use serde_json::json;

pub struct StdForm {
    pub vars: Vec<String>,
    pub obj: Vec<f64>,
    pub rows: Vec<(Vec<f64>, f64)>,
    pub offset: f64,
    pub flip: bool,
}

pub fn read_std(s: &rooc::StandardLinearModel) -> StdForm {
    StdForm {
        vars: s.verif_variables(),
        obj: s.verif_objective(),
        rows: s.verif_rows(),
        offset: s.verif_objective_offset(),
        flip: s.verif_flip_objective(),
    }
}

impl StdForm {
    pub fn to_exact(&self) -> Lp {
        let n = self.vars.len();
        let mut lp = Lp::new(n);
        for i in 0..n {
            lp.obj[i] = qf(self.obj[i]);
            lp.lb[i] = Some(q(0));
        }
        for (c, b) in &self.rows {
            lp.rows.push((c.iter().map(|v| qf(*v)).collect(), Rel::Eq, qf(*b)));
        }
        lp
    }
    pub fn show(&self) -> String {
        let mut s = format!("min {:?} (flip={}, offset={}) over {:?} s.t. ", self.obj, self.flip, self.offset, self.vars);
        for (c, b) in &self.rows {
            s.push_str(&format!("{:?} = {}; ", c, b));
        }
        s
    }
}

fn families(quick: bool) -> Vec<LmFamily> {
    let kinds = vec![
        Dom::Free,
        Dom::NonNeg,
        Dom::Real(-2.0, 3.0),
        Dom::NonNegB(1.0, 4.0),
        Dom::Real(f64::NEG_INFINITY, 2.0),
        Dom::Real(-1.0, f64::INFINITY),
    ];
    let mut v = vec![];
    v.push(LmFamily {
        name: "S1-n1",
        n: 1,
        m: 1,
        doms: kinds.clone(),
        coefs: vec![-1.0, 0.0, 1.0, 2.0],
        rhss: vec![-2.0, 0.0, 1.0],
        rels: vec![Rel::Le, Rel::Ge, Rel::Eq],
        objs: vec![-1.0, 0.0, 1.0],
        senses: vec![Sense::Min, Sense::Max],
        offsets: vec![0.0, 2.5, -1.0],
        named: false,
    });
    v.push(LmFamily {
        name: "S2-n2m0",
        n: 2,
        m: 0,
        doms: kinds.clone(),
        coefs: vec![0.0],
        rhss: vec![0.0],
        rels: vec![Rel::Le],
        objs: vec![-1.0, 0.0, 1.0],
        senses: vec![Sense::Min, Sense::Max],
        offsets: vec![0.0, 2.5],
        named: false,
    });
    v.push(LmFamily {
        name: "S3-n2m1",
        n: 2,
        m: 1,
        doms: kinds.clone(),
        coefs: vec![-1.0, 0.0, 1.0, 2.0],
        rhss: vec![-2.0, 0.0, 1.0],
        rels: vec![Rel::Le, Rel::Ge, Rel::Eq],
        objs: vec![-1.0, 0.0, 1.0],
        senses: vec![Sense::Min, Sense::Max],
        offsets: vec![0.0, 2.5],
        named: false,
    });
    // bounds that coincide with the default lower bound 0 of a standard-form column, and upper bounds of 0
    v.push(LmFamily {
        name: "S7-zero-bounds-n2m1",
        n: 2,
        m: 1,
        doms: vec![Dom::Real(0.0, 3.0), Dom::NonNegB(0.0, 4.0), Dom::Real(-2.0, 0.0), Dom::Real(f64::NEG_INFINITY, -1.0), Dom::Real(1.0, f64::INFINITY), Dom::Free, Dom::NonNeg],
        coefs: vec![-1.0, 0.0, 1.0, 2.0],
        rhss: vec![-2.0, 0.0, 1.0],
        rels: vec![Rel::Le, Rel::Ge, Rel::Eq],
        objs: vec![-1.0, 0.0, 1.0],
        senses: vec![Sense::Min, Sense::Max],
        offsets: vec![0.0],
        named: false,
    });
    // three variables in every order of kinds (free, non-free, free ...): positional bookkeeping of the split columns
    // fixed variables (both ends equal, away from zero) before and after bounded and free ones
    v.push(LmFamily {
        name: "S9-fixed-variables-n2m1",
        n: 2,
        m: 1,
        doms: vec![Dom::Real(2.0, 2.0), Dom::NonNegB(1.0, 1.0), Dom::Real(-1.5, -1.5), Dom::Real(-2.0, 3.0), Dom::NonNegB(1.0, 4.0), Dom::NonNeg, Dom::Free],
        coefs: vec![-1.0, 0.0, 1.0, 2.0],
        rhss: vec![-2.0, 0.0, 1.0],
        rels: vec![Rel::Le, Rel::Ge, Rel::Eq],
        objs: vec![-1.0, 0.0, 1.0],
        senses: vec![Sense::Min, Sense::Max],
        offsets: vec![0.0],
        named: false,
    });
    v.push(LmFamily {
        name: "S10-fixed-variables-n3m0",
        n: 3,
        m: 0,
        doms: vec![Dom::Real(2.0, 2.0), Dom::NonNegB(1.0, 1.0), Dom::Real(-2.0, 3.0), Dom::NonNegB(1.0, 4.0), Dom::Free],
        coefs: vec![0.0],
        rhss: vec![0.0],
        rels: vec![Rel::Le],
        objs: vec![-1.0, 1.0],
        senses: vec![Sense::Min, Sense::Max],
        offsets: vec![0.0],
        named: false,
    });
    // rows whose largest-magnitude coefficient is negative and far from 1 (2048, 2^-11)
    v.push(LmFamily {
        name: "S11-badly-scaled-rows-n2m1",
        n: 2,
        m: 1,
        doms: vec![Dom::NonNegB(0.0, 8.0), Dom::Real(-100.0, 100.0), Dom::NonNeg],
        coefs: vec![-2048.0, -0.00048828125, 0.0, 1.0, 2048.0],
        rhss: vec![-1024.0, 0.0, 1.0],
        rels: vec![Rel::Le, Rel::Ge, Rel::Eq],
        objs: vec![-1.0, 1.0],
        senses: vec![Sense::Min, Sense::Max],
        offsets: vec![0.0],
        named: false,
    });
    v.push(LmFamily {
        name: "S8-n3m1",
        n: 3,
        m: 1,
        doms: vec![Dom::Free, Dom::NonNeg, Dom::Real(-2.0, 3.0)],
        coefs: vec![-1.0, 0.0, 1.0],
        rhss: vec![-2.0, 1.0],
        rels: vec![Rel::Le, Rel::Ge, Rel::Eq],
        objs: vec![-1.0, 1.0],
        senses: vec![Sense::Min],
        offsets: vec![0.0],
        named: false,
    });
    if quick {
        v.push(LmFamily {
            name: "S4q-n2m2",
            n: 2,
            m: 2,
            doms: vec![Dom::Free, Dom::NonNeg, Dom::Real(-2.0, 3.0)],
            coefs: vec![-1.0, 0.0, 1.0],
            rhss: vec![-2.0, 1.0],
            rels: vec![Rel::Le, Rel::Ge, Rel::Eq],
            objs: vec![-1.0, 1.0],
            senses: vec![Sense::Min, Sense::Max],
            offsets: vec![0.0],
            named: false,
        });
    } else {
        v.push(LmFamily {
            name: "S4-n2m2",
            n: 2,
            m: 2,
            doms: kinds.clone(),
            coefs: vec![-1.0, 0.0, 1.0, 2.0],
            rhss: vec![-2.0, 0.0, 1.0],
            rels: vec![Rel::Le, Rel::Ge, Rel::Eq],
            objs: vec![-1.0, 1.0],
            senses: vec![Sense::Min, Sense::Max],
            offsets: vec![0.0],
            named: false,
        });
        v.push(LmFamily {
            name: "S5-n3m2",
            n: 3,
            m: 2,
            doms: vec![Dom::Free, Dom::NonNeg, Dom::Real(-2.0, 3.0)],
            coefs: vec![-1.0, 0.0, 1.0],
            rhss: vec![-2.0, 1.0],
            rels: vec![Rel::Le, Rel::Ge, Rel::Eq],
            objs: vec![-1.0, 1.0],
            senses: vec![Sense::Min],
            offsets: vec![0.0],
            named: false,
        });
        v.push(LmFamily {
            name: "S6-n3m3",
            n: 3,
            m: 3,
            doms: vec![Dom::Free, Dom::NonNeg],
            coefs: vec![-1.0, 0.0, 1.0],
            rhss: vec![1.0],
            rels: vec![Rel::Eq],
            objs: vec![-1.0, 1.0],
            senses: vec![Sense::Max],
            offsets: vec![0.0],
            named: false,
        });
    }
    v
}

/// index of the standard-form column(s) carrying original variable `name`: (plus, minus)
fn columns_of(std: &StdForm, name: &str) -> Option<(usize, Option<usize>)> {
    if let Some(i) = std.vars.iter().position(|v| v == name) {
        return Some((i, None));
    }
    let p = std.vars.iter().position(|v| *v == format!("$p{name}"))?;
    let m = std.vars.iter().position(|v| *v == format!("$m{name}"))?;
    Some((p, Some(m)))
}

pub fn check_model(spec: &LmSpec, l: &mut Local) {
    check_model_with(spec, spec.to_rooc(), l);
    // the same model with its domain map in the opposite order of its columns (compiled models keep the
    // declaration order in the map and sort the columns): only worth a second pass when the kinds differ; done for models with at most one row
    if spec.vars.len() >= 2 && spec.rows.len() <= 1 && spec.vars.iter().any(|v| v.1 != spec.vars[0].1) {
        let (obj, ot, offset, cons, vars, dom) = spec.to_rooc().into_parts();
        let reversed: indexmap::IndexMap<_, _> = dom.into_iter().rev().collect();
        l.count("domain-map-in-reverse-order");
        check_model_with(spec, rooc::LinearModel::new_from_parts(obj, ot, offset, cons, vars, reversed), l);
    }
}

fn check_model_with(spec: &LmSpec, lm: rooc::LinearModel, l: &mut Local) {
    let case = |std: Option<&StdForm>| json!({"model": spec.show(), "standard": std.map(|s| s.show())});
    let std = match crate::core::catch(|| lm.clone().into_standard_form()) {
        Err(p) => {
            l.violation("panic", format!("into_standard_form panicked: {p}"), case(None));
            return;
        }
        Ok(Err(e)) => {
            l.violation("rejected", format!("continuous min/max model rejected: {e}"), case(None));
            return;
        }
        Ok(Ok(s)) => read_std(&s),
    };
    l.count("standardised");
    l.sample(|| case(Some(&std)));
    // leg 1: shape
    let n = std.vars.len();
    if std.obj.len() != n {
        l.violation("shape:objective-length", "objective length differs from variable count", case(Some(&std)));
        return;
    }
    for (c, b) in &std.rows {
        if c.len() != n {
            l.violation("shape:row-length", "row length differs from variable count", case(Some(&std)));
            return;
        }
        if *b < 0.0 {
            l.violation("shape:negative-rhs", format!("negative right-hand side {b}"), case(Some(&std)));
        }
        if !b.is_finite() || c.iter().any(|v| !v.is_finite()) {
            l.violation("shape:non-finite", "non-finite entry", case(Some(&std)));
            return;
        }
    }
    let mut names = std.vars.clone();
    names.sort();
    names.dedup();
    if names.len() != n {
        l.violation("shape:duplicate-variable", "duplicate variable name in standard form", case(Some(&std)));
    }
    if std.flip != (spec.sense == Sense::Max) {
        l.violation("shape:flip-flag", "flip flag does not match the optimisation direction", case(Some(&std)));
    }
    // every original variable must be representable
    let mut cols = vec![];
    for (name, _) in &spec.vars {
        match columns_of(&std, name) {
            Some(c) => cols.push(c),
            None => {
                l.violation("shape:variable-lost", format!("original variable {name} has no column(s) in the standard form"), case(Some(&std)));
                return;
            }
        }
    }
    // leg 3: semantic equivalence, exact
    let orig = spec.to_exact();
    let slp = std.to_exact();
    let ro = exact::solve_lp(&orig);
    let rs = exact::solve_lp(&slp);
    let sign = if std.flip { q(-1) } else { q(1) };
    let kind = |r: &LpResult| match r {
        LpResult::Optimal { .. } => "optimal",
        LpResult::Infeasible => "infeasible",
        LpResult::Unbounded => "unbounded",
    };
    l.count(&format!("status:{}", kind(&ro)));
    if kind(&ro) != kind(&rs) {
        l.violation(
            format!("semantic:status-{}-became-{}", kind(&ro), kind(&rs)),
            format!("original is {}, standard form is {}", kind(&ro), kind(&rs)),
            case(Some(&std)),
        );
        return;
    }
    let has_free = spec.vars.iter().any(|v| matches!(v.1, Dom::Free | Dom::Real(_, _)));
    let has_bounds = spec.vars.iter().any(|v| !matches!(v.1, Dom::Free | Dom::NonNeg));
    if let (LpResult::Optimal { value: vo, x: xo }, LpResult::Optimal { value: vs, x: ys }) = (&ro, &rs) {
        if has_free || has_bounds {
            l.nontrivial(&spec.canon_hash());
        }
        let mapped = &sign * vs + qf(std.offset);
        if &mapped != vo {
            l.violation("semantic:optimum-differs", format!("original optimum {} but standard form gives {}", vo, mapped), case(Some(&std)));
            return;
        }
        // back map: y* -> x
        let mut xb = vec![];
        for (p, m) in &cols {
            let mut v = ys[*p].clone();
            if let Some(m) = m {
                v -= &ys[*m];
            }
            xb.push(v);
        }
        if !orig.feasible_point(&xb) {
            l.violation("semantic:back-map-infeasible", "optimal vertex of the standard form maps back to a point outside the original feasible set", case(Some(&std)));
        } else if &orig.eval_obj(&xb) != vo {
            l.violation("semantic:back-map-objective", "mapped-back point has a different objective value", case(Some(&std)));
        }
        // forward map: x* -> y with slacks from residuals
        let mut y = vec![Q::zero(); n];
        let mut assigned = vec![false; n];
        for (i, (p, m)) in cols.iter().enumerate() {
            match m {
                None => {
                    y[*p] = xo[i].clone();
                    assigned[*p] = true;
                }
                Some(m) => {
                    if xo[i].is_negative() {
                        y[*m] = -xo[i].clone();
                    } else {
                        y[*p] = xo[i].clone();
                    }
                    assigned[*p] = true;
                    assigned[*m] = true;
                }
            }
        }
        let mut ok = true;
        for (c, b) in &std.rows {
            let mut resid = qf(*b);
            let mut slack: Vec<usize> = vec![];
            for j in 0..n {
                if assigned[j] {
                    resid -= qf(c[j]) * &y[j];
                } else if c[j] != 0.0 {
                    slack.push(j);
                }
            }
            match slack.len() {
                0 => {
                    if !resid.is_zero() {
                        ok = false;
                    }
                }
                1 => {
                    let j = slack[0];
                    y[j] = resid / qf(c[j]);
                    assigned[j] = true;
                    if y[j].is_negative() {
                        ok = false;
                    }
                }
                _ => {
                    l.violation("shape:several-slacks-in-row", "a row carries more than one unassigned auxiliary column", case(Some(&std)));
                    return;
                }
            }
        }
        if y.iter().any(|v| v.is_negative()) {
            ok = false;
        }
        if !ok || !slp.feasible_point(&y) {
            l.violation("semantic:forward-map-infeasible", "an optimal point of the original has no feasible image in the standard form", case(Some(&std)));
        } else {
            let fv = &sign * slp.eval_obj(&y) + qf(std.offset);
            if &fv != vo {
                l.violation("semantic:forward-map-objective", "image of the original optimum has a different objective value", case(Some(&std)));
            }
        }
    }
    // bounds enforced by rows: projections of each original variable agree
    for (i, (p, m)) in cols.iter().enumerate() {
        let po = exact::project(&orig, i);
        // project p - m in the standard form
        let mut lp = slp.clone();
        lp.obj = vec![Q::zero(); n];
        lp.obj[*p] = q(1);
        if let Some(m) = m {
            lp.obj[*m] = q(-1);
        }
        lp.maximize = false;
        let lo = exact::solve_lp(&lp);
        lp.maximize = true;
        let hi = exact::solve_lp(&lp);
        let ps = match (&lo, &hi) {
            (LpResult::Infeasible, _) | (_, LpResult::Infeasible) => None,
            _ => Some((
                if let LpResult::Optimal { value, .. } = &lo { Some(value.clone()) } else { None },
                if let LpResult::Optimal { value, .. } = &hi { Some(value.clone()) } else { None },
            )),
        };
        if po != ps {
            l.violation(
                "semantic:variable-range-differs",
                format!("range of {} is {:?} in the original but {:?} in the standard form", spec.vars[i].0, po.map(|(a, b)| (a.map(|v| v.to_string()), b.map(|v| v.to_string()))), ps.map(|(a, b)| (a.map(|v| v.to_string()), b.map(|v| v.to_string())))),
                case(Some(&std)),
            );
        }
    }
}

pub fn run(mut run: Run) -> ! {
    crate::core::silence_panics();
    run.rule = "every member (built with add_variable, and again with the domain map in the opposite order of the columns when the variable kinds differ) of finite continuous LinearModel families (every interleaving of 6 variable kinds x row relations x rhs signs x coefficients incl. zeros on free variables x min/max x offsets) is converted with into_standard_form(); distinct = canonical model text; non-trivial = feasible and bounded model with at least one split or bounded variable".into();
    run.assume("exact rational LP oracle on both the original and the standard form; all menu values are dyadic so the conversion is exact and the comparison uses zero tolerance");
    run.assume("variable correspondence by the documented naming convention ($p<name> - $m<name>, otherwise same name); slack/surplus recovered from row residuals");
    for fam in families(run.quick()) {
        let f2 = fam.clone();
        run.family(fam.name, fam.size(), move |i, l| {
            let spec = f2.get(i);
            check_model(&spec, l);
        });
    }
    // continuous linear models as the compiler produces them (auxiliaries of relaxed lowerings,
    // published derived bounds, rows that duplicate bounds): objective models of the C02 family
    {
        let n = crate::props::c02::family_size_pub(1, true);
        run.family("K-compiled-continuous-models", n, |i, l| {
            let case = crate::props::c02::family_pub(i, 1, true);
            if let Ok(Ok(lm)) = crate::core::catch(|| case.model.compile()) {
                if let Some(spec) = LmSpec::from_rooc(&lm) {
                    // dyadic data only: the exact comparison uses zero tolerance
                    if spec.all_continuous() && !crate::props::c01::is_inexact(&case.model) {
                        l.count("compiled-continuous-models");
                        check_model(&spec, l);
                    }
                }
            }
        });
    }
    run.require("standardised");
    run.require("status:optimal");
    run.require("status:infeasible");
    run.require("status:unbounded");
    run.finish()
}
