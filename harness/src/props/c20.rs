//! C20 — shadow prices are the sensitivities of the optimum.
use crate::core::{Local, Run};
use crate::exact::{self, LpResult, Q, Rel, gauss, q, qf, qr, to_f64};
use crate::lm::{Dom, LmFamily, LmSpec, Sense};
use crate::solve::{Outcome, SolverKind, run_solver};
use num_traits::Zero;
use serde_json::json;

const TOL: f64 = 1e-5;

/// exact multipliers at a unique, non-degenerate optimum; None if the optimum is not of that kind
fn exact_prices(spec: &LmSpec) -> Option<(Q, Vec<Q>)> {
    let lp = spec.to_exact();
    let n = lp.n;
    let LpResult::Optimal { value, x } = exact::solve_lp(&lp) else { return None };
    // tight constraints
    let mut tight: Vec<(Vec<Q>, Option<usize>)> = vec![];
    for (ri, (c, rel, b)) in lp.rows.iter().enumerate() {
        let mut s = Q::zero();
        for i in 0..n {
            s += &c[i] * &x[i];
        }
        if *rel == Rel::Eq || &s == b {
            tight.push((c.clone(), Some(ri)));
        }
    }
    for i in 0..n {
        let mut e = vec![Q::zero(); n];
        e[i] = q(1);
        if lp.lb[i].as_ref() == Some(&x[i]) {
            tight.push((e.clone(), None));
        }
        if lp.ub[i].as_ref() == Some(&x[i]) {
            tight.push((e, None));
        }
    }
    if tight.len() != n {
        return None;
    }
    // solve sum_k lambda_k a_k = c
    let mut a = vec![vec![Q::zero(); n]; n];
    for (k, (row, _)) in tight.iter().enumerate() {
        for i in 0..n {
            a[i][k] = row[i].clone();
        }
    }
    let lambda = gauss(a, lp.obj.clone())?;
    if lambda.iter().any(|v| v.is_zero()) {
        return None;
    }
    let mut prices = vec![Q::zero(); lp.rows.len()];
    for (k, (_, ri)) in tight.iter().enumerate() {
        if let Some(ri) = ri {
            prices[*ri] = lambda[k].clone();
        }
    }
    Some((value, prices))
}

fn perturbed_value(spec: &LmSpec, row: usize, delta: &Q) -> Option<Q> {
    let mut lp = spec.to_exact();
    lp.rows[row].2 += delta;
    match exact::solve_lp(&lp) {
        LpResult::Optimal { value, .. } => Some(value),
        _ => None,
    }
}

pub fn check_model(spec: &LmSpec, l: &mut Local) {
    let Some((value, prices)) = exact_prices(spec) else {
        l.count("filtered:not-unique-nondegenerate");
        return;
    };
    // oracle self-check: multipliers equal exact two-sided finite differences
    let delta = qr(1, 1024);
    for r in 0..spec.rows.len() {
        let up = perturbed_value(spec, r, &delta);
        let dn = perturbed_value(spec, r, &(-delta.clone()));
        match (up, dn) {
            (Some(u), Some(d)) => {
                let right = (&u - &value) / &delta;
                let left = (&value - &d) / &delta;
                if right != prices[r] || left != prices[r] {
                    l.violation("ORACLE-SELFCHECK", format!("multiplier {} but finite differences {} / {}", prices[r], left, right), json!({"model": spec.show(), "row": r}));
                    return;
                }
            }
            _ => {
                // perturbation leaves the feasible/bounded region: outside the basis-stability range
                l.count("filtered:perturbation-leaves-range");
                return;
            }
        }
    }
    l.count("models_with_defined_sensitivities");
    l.nontrivial(&spec.canon_hash());
    let lm = spec.to_rooc();
    crate::core::set_phase("clarabel");
    let (out, sol) = run_solver(SolverKind::Clarabel, &lm);
    let case = |sol: &Option<crate::solve::Sol>| json!({"model": spec.show(), "expected_prices": prices.iter().map(to_f64).collect::<Vec<_>>(), "outcome": format!("{:?}", out), "shadow": sol.as_ref().map(|s| s.shadow.clone())});
    l.sample(|| case(&sol));
    let sol = match (&out, sol) {
        (Outcome::Ok, Some(s)) => s,
        _ => {
            l.count("clarabel:no-answer");
            return;
        }
    };
    let z = to_f64(&value);
    if (sol.value - z).abs() > 1e-6 * z.abs().max(1.0) {
        l.count("clarabel:wrong-optimum(judged by C05)");
        return;
    }
    l.count("solutions_with_duals_checked");
    let sense = match spec.sense {
        Sense::Min => "min",
        Sense::Max => "max",
        Sense::Satisfy => "satisfy",
    };
    // prices are in objective units: the interior-point accuracy is relative to the objective's scale
    let oscale = spec.obj.iter().fold(1.0f64, |a, c| a.max(c.abs()));
    for (r, row) in spec.rows.iter().enumerate() {
        let rel = crate::lm::rel_str(row.rel);
        let reported: Vec<f64> = sol.shadow.iter().filter(|(n, _)| n == &row.name).map(|(_, v)| *v).collect();
        if row.name.is_empty() {
            continue;
        }
        let want = to_f64(&prices[r]);
        if reported.len() != 1 {
            l.violation(format!("missing-price:{sense}:{rel}"), format!("named row {} has {} reported prices", row.name, reported.len()), case(&Some(sol.clone())));
            continue;
        }
        l.count(if prices[r].is_zero() { "prices_checked:inactive" } else { "prices_checked:active" });
        if (reported[0] - want).abs() > TOL * want.abs().max(oscale) {
            let kind = if prices[r].is_zero() { "inactive-row-nonzero" } else if (reported[0] + want).abs() <= TOL * want.abs().max(oscale) { "wrong-sign" } else { "wrong-value" };
            l.violation(format!("{kind}:{sense}:{rel}"), format!("row {} ({rel}, {sense}): reported shadow price {}, sensitivity of the optimum is {}", row.name, reported[0], want), case(&Some(sol.clone())));
        }
    }
    // the builder's door: Clarabel solver object + DualValues::shadow_price(name) must give the same prices
    {
        use rooc::builder::{DualValues, Solver};
        match crate::core::catch(|| rooc::Clarabel.solve(&lm)) {
            Ok(Ok(bs)) => {
                l.count("builder_door_compared");
                for row in &spec.rows {
                    if row.name.is_empty() {
                        continue;
                    }
                    let direct: Option<f64> = sol.shadow.iter().find(|(n, _)| n == &row.name).map(|(_, v)| *v);
                    let through = bs.shadow_price(&row.name);
                    if direct.map(f64::to_bits) != through.map(f64::to_bits) {
                        l.violation("builder-shadow-price-differs", format!("row {}: free function reports {:?}, Clarabel solver object + shadow_price() reports {:?}", row.name, direct, through), case(&Some(sol.clone())));
                    }
                }
                if bs.shadow_price("").is_some() || bs.shadow_price("no such row").is_some() {
                    l.violation("builder-price-for-unknown-row", "shadow_price() answers for the empty or an unknown name", case(&Some(sol.clone())));
                }
            }
            other => l.violation("builder-door-no-answer", format!("the free function answers but the Clarabel solver object does not: {:?}", other.map(|r| r.map(|_| ()).map_err(|e| e.to_string()))), case(&Some(sol.clone()))),
        }
    }
    // the compiled door: the same model written as source text, compiled (which publishes derived
    // bounds) and solved; the prices must still be the sensitivities of the model the user wrote
    if spec.rows.iter().all(|r| !r.name.is_empty()) {
        let text = lm.to_string();
        let compiled = crate::core::catch(|| rooc::RoocParser::new(text.clone()).parse_and_transform(vec![], &indexmap::IndexMap::new()).map_err(|e| e.to_string()).and_then(|m| rooc::Linearizer::linearize(m).map_err(|e| e.to_string())));
        match compiled {
            Ok(Ok(clm)) => {
                l.count("compiled_door:compiled");
                let (cout, csol) = run_solver(SolverKind::Clarabel, &clm);
                if let (Outcome::Ok, Some(csol)) = (&cout, csol) {
                    // which declared domains were tightened, and is a tightened end tight at the optimum?
                    let x = match exact::solve_lp(&spec.to_exact()) {
                        LpResult::Optimal { x, .. } => x,
                        _ => vec![],
                    };
                    let mut tightened_and_tight = false;
                    for (i, (name, dom)) in spec.vars.iter().enumerate() {
                        if let Some(cd) = clm.domain().get(name) {
                            let (lo0, hi0) = dom.bounds();
                            let (lo1, hi1) = crate::lm::Dom::from_vt(cd.get_type()).bounds();
                            if let Some(v) = x.get(i) {
                                let v = to_f64(v);
                                if (lo1 > lo0 && (v - lo1).abs() <= 1e-6 * v.abs().max(1.0)) || (hi1 < hi0 && (v - hi1).abs() <= 1e-6 * v.abs().max(1.0)) {
                                    tightened_and_tight = true;
                                }
                            }
                        }
                    }
                    for (r, row) in spec.rows.iter().enumerate() {
                        let want = to_f64(&prices[r]);
                        let reported: Vec<f64> = csol.shadow.iter().filter(|(n, _)| n == &row.name).map(|(_, v)| *v).collect();
                        l.count("compiled_door:prices_checked");
                        // a row without variables is a constant comparison: the compiler drops it when it holds, so
                        // it has no row to carry a price (its sensitivity is 0)
                        if reported.is_empty() && row.coef.iter().all(|c| *c == 0.0) && want == 0.0 {
                            l.count("compiled_door:constant-row-has-no-price");
                            continue;
                        }
                        let bad = reported.len() != 1 || (reported[0] - want).abs() > TOL * want.abs().max(oscale);
                        if bad {
                            let cause = if tightened_and_tight { "derived-bound-tight-at-the-optimum" } else { "other" };
                            l.violation(format!("compiled:price-differs-from-sensitivity:{cause}"), format!("row {}: the compiled model reports {:?}, the sensitivity of the written model is {want}", row.name, reported), json!({"source": text, "compiled": clm.to_string(), "expected_prices": prices.iter().map(to_f64).collect::<Vec<_>>(), "reported": csol.shadow}));
                            break;
                        }
                    }
                } else {
                    l.count("compiled_door:no-answer");
                }
            }
            Ok(Err(e)) => l.violation("compiled:rendering-rejected", format!("the rendering of the model does not compile: {e}"), json!({"source": text})),
            Err(p) => l.violation("compiled:panic", p, json!({"source": text})),
        }
    }
    // unnamed rows report none; no price for unknown names
    for (name, _) in &sol.shadow {
        if name.is_empty() {
            l.violation("price-for-unnamed-row", "a shadow price is reported under the empty name", case(&Some(sol.clone())));
        } else if !spec.rows.iter().any(|r| &r.name == name) {
            l.violation("price-for-unknown-row", format!("shadow price for unknown row {name}"), case(&Some(sol.clone())));
        }
    }
}

fn families(quick: bool) -> Vec<LmFamily> {
    let mut v = vec![];
    v.push(LmFamily {
        name: "D1-n2m2",
        n: 2,
        m: 2,
        doms: if quick { vec![Dom::NonNeg, Dom::Free] } else { vec![Dom::NonNeg, Dom::Free, Dom::NonNegB(0.0, 4.0)] },
        coefs: if quick { vec![-1.0, 1.0, 2.0] } else { vec![-1.0, 0.0, 1.0, 2.0] },
        rhss: if quick { vec![-1.0, 0.0, 3.0] } else { vec![-1.0, 0.0, 1.0, 3.0] },
        rels: vec![Rel::Le, Rel::Ge, Rel::Eq],
        objs: if quick { vec![-1.0, 2.0] } else { vec![-1.0, 1.0, 2.0] },
        senses: vec![Sense::Min, Sense::Max],
        offsets: vec![0.0],
        named: true,
    });
    // objective coefficients far from 1 (thousands, and below 2^-9): prices scale with the objective
    v.push(LmFamily {
        name: "D4-objective-scales-n2m2",
        n: 2,
        m: 2,
        doms: vec![Dom::NonNeg],
        coefs: vec![-1.0, 1.0, 2.0],
        rhss: vec![-1.0, 3.0],
        rels: vec![Rel::Le, Rel::Ge],
        objs: vec![-3000.0, 1024.0, 2048.0, 0.0009765625, -0.00146484375],
        senses: vec![Sense::Min, Sense::Max],
        offsets: vec![0.0],
        named: true,
    });
    // single-variable rows whose right-hand side coincides with a domain bound while the coefficient is not 1
    v.push(LmFamily {
        name: "D5-rows-that-look-like-bounds-n2m2",
        n: 2,
        m: 2,
        doms: vec![Dom::NonNegB(0.0, 4.0), Dom::Real(2.0, 10.0)],
        coefs: vec![-2.0, 0.0, 0.5, 1.0, 2.0],
        rhss: vec![2.0, 4.0],
        rels: vec![Rel::Le, Rel::Ge],
        objs: vec![-1.0, 3.0],
        senses: vec![Sense::Min, Sense::Max],
        offsets: vec![0.0],
        named: true,
    });
    if !quick {
        v.push(LmFamily {
            name: "D2-n3m3",
            n: 3,
            m: 3,
            doms: vec![Dom::NonNeg],
            coefs: vec![0.0, 1.0, 2.0],
            rhss: vec![2.0],
            rels: vec![Rel::Le, Rel::Ge],
            objs: vec![1.0, 2.0],
            senses: vec![Sense::Min, Sense::Max],
            offsets: vec![0.0],
            named: true,
        });
        v.push(LmFamily {
            name: "D3-n2m3",
            n: 2,
            m: 3,
            doms: vec![Dom::NonNeg, Dom::Free],
            coefs: vec![-1.0, 1.0, 2.0],
            rhss: vec![1.0, 3.0],
            rels: vec![Rel::Le, Rel::Ge, Rel::Eq],
            objs: vec![-1.0, 2.0],
            senses: vec![Sense::Min, Sense::Max],
            offsets: vec![2.5],
            named: true,
        });
    }
    v
}

pub fn run(mut run: Run) -> ! {
    crate::core::silence_panics();
    run.isolate = true;
    run.case_timeout_s = 10.0;
    run.rule = "every member of finite continuous LinearModel families with named rows (objective coefficients of order 1, of order 1e3 and of order 1e-3; and every subset of rows left unnamed) is filtered exactly to unique non-degenerate optima (exactly n linearly independent tight constraints, all multipliers non-zero) whose rhs perturbations of +-1/1024 stay in the basis-stability range; each such model is solved with solve_real_lp_problem_clarabel and every reported shadow price compared with the exact sensitivity; the builder door (Clarabel solver object, DualValues::shadow_price(name)) must report bit-identical prices and none for unknown names; the compiled door (the model written as source text, compiled with its derived bounds published, solved) must report the sensitivities of the written model; distinct = canonical model text".into();
    run.assume("exact multipliers from the n x n tight-constraint system over BigRational, self-checked on every model against exact two-sided finite differences of the optimal value");
    run.assume("tolerance 1e-5 x max(1, |price|, largest objective coefficient) (interior-point accuracy, relative to the objective's scale); models on which Clarabel gives no answer or a wrong optimum are counted and left to C05");
    for fam in families(run.quick()) {
        let f2 = fam.clone();
        let masks = if fam.name.starts_with("D1") { 1u64 << fam.m } else { 1 };
        // family D5 also carries the row names cap / cap__2 (a user name that looks like a generated one)
        let suffix_names = fam.name.starts_with("D5");
        run.family(fam.name, fam.size() * masks, move |i, l| {
            let mut spec = f2.get(i / masks);
            let mask = i % masks;
            if suffix_names {
                for (r, row) in spec.rows.iter_mut().enumerate() {
                    row.name = if r == 0 { "cap".to_string() } else { format!("cap__{}", r + 1) };
                }
            }
            for r in 0..spec.rows.len() {
                if mask & (1 << r) != 0 {
                    spec.rows[r].name = String::new();
                }
            }
            check_model(&spec, l);
        });
    }
    run.require("solutions_with_duals_checked");
    run.require("prices_checked:active");
    run.require("prices_checked:inactive");
    run.finish()
}
