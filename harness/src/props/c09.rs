//! C09 — expressions parse with the documented precedence and associativity.
//! Every well-formed token sequence up to a length bound is parsed by rooc and by an independent
//! precedence-climbing reference parser; the tree shapes must coincide.
use crate::core::{Local, Run};
use crate::textref::{Ast, B, BINOPS, RefParser, Tok, exp_sexpr, preexp_sexpr, render_tokens};
use indexmap::IndexMap;
use rooc::RoocParser;
use serde_json::json;
use std::sync::Arc;

#[derive(Clone, Copy, PartialEq)]
enum St {
    Operand { prefix_ok: bool },
    AfterNum,
    AfterPar,
    AfterVar,
}

fn gen_all(max_len: usize, vars: &[&'static str], nums: &[&'static str]) -> Vec<Vec<Tok>> {
    let mut out = vec![];
    let mut cur: Vec<Tok> = vec![];
    fn rec(st: St, depth: usize, cur: &mut Vec<Tok>, out: &mut Vec<Vec<Tok>>, max_len: usize, vars: &[&'static str], nums: &[&'static str]) {
        // a sequence can end after an operand at depth 0
        if depth == 0 && matches!(st, St::AfterNum | St::AfterPar | St::AfterVar) {
            out.push(cur.clone());
        }
        // remaining tokens must at least close the parentheses
        if cur.len() >= max_len {
            return;
        }
        let room = max_len - cur.len();
        let mut push = |t: Tok, st: St, depth: usize, cur: &mut Vec<Tok>, out: &mut Vec<Vec<Tok>>| {
            cur.push(t);
            rec(st, depth, cur, out, max_len, vars, nums);
            cur.pop();
        };
        match st {
            St::Operand { prefix_ok } => {
                // need: 1 operand + depth closers
                if room < 1 + depth {
                    return;
                }
                for n in nums {
                    push(Tok::Num(n), St::AfterNum, depth, cur, out);
                }
                for v in vars {
                    push(Tok::Var(v), St::AfterVar, depth, cur, out);
                }
                if room >= 3 + depth {
                    push(Tok::LPar, St::Operand { prefix_ok: true }, depth + 1, cur, out);
                }
                if prefix_ok && room >= 2 + depth {
                    push(Tok::Neg, St::Operand { prefix_ok: false }, depth, cur, out);
                    push(Tok::Not, St::Operand { prefix_ok: false }, depth, cur, out);
                }
            }
            St::AfterNum | St::AfterPar | St::AfterVar => {
                if depth > 0 {
                    push(Tok::RPar, St::AfterPar, depth - 1, cur, out);
                }
                if room >= 2 + depth {
                    for b in BINOPS {
                        push(Tok::Bin(b), St::Operand { prefix_ok: true }, depth, cur, out);
                    }
                }
                // implicit multiplication: (number | parenthesis)+ variable?
                if st != St::AfterVar {
                    if room >= 1 + depth {
                        for n in nums {
                            push(Tok::Num(n), St::AfterNum, depth, cur, out);
                        }
                        for v in vars {
                            push(Tok::Var(v), St::AfterVar, depth, cur, out);
                        }
                    }
                    if room >= 3 + depth {
                        push(Tok::LPar, St::Operand { prefix_ok: true }, depth + 1, cur, out);
                    }
                }
            }
        }
    }
    rec(St::Operand { prefix_ok: true }, 0, &mut cur, &mut out, max_len, vars, nums);
    out
}

fn rename(toks: &[Tok]) -> Vec<Tok> {
    toks.iter()
        .map(|t| match t {
            Tok::Var("a") => Tok::Var("android"),
            Tok::Var("b") => Tok::Var("orx"),
            Tok::Var("x") => Tok::Var("notx"),
            Tok::Var("c") => Tok::Var("iffy"),
            o => o.clone(),
        })
        .collect()
}
fn rename2(toks: &[Tok]) -> Vec<Tok> {
    toks.iter()
        .map(|t| match t {
            Tok::Var("a") => Tok::Var("xorb"),
            Tok::Var("b") => Tok::Var("minx"),
            Tok::Var("x") => Tok::Var("inx"),
            Tok::Var("c") => Tok::Var("impliesy"),
            o => o.clone(),
        })
        .collect()
}

/// names that look like the exponent part of a number in scientific notation (2e1, 2E2, 2e-1)
fn rename3(toks: &[Tok]) -> Vec<Tok> {
    toks.iter()
        .map(|t| match t {
            Tok::Var("a") => Tok::Var("e"),
            Tok::Var("b") => Tok::Var("E2"),
            Tok::Var("x") => Tok::Var("e1"),
            Tok::Var("c") => Tok::Var("e3"),
            o => o.clone(),
        })
        .collect()
}

/// identifiers that start with a literal keyword (true, false) rather than an operator keyword
fn rename4(toks: &[Tok]) -> Vec<Tok> {
    toks.iter()
        .map(|t| match t {
            Tok::Var("a") => Tok::Var("truex"),
            Tok::Var("b") => Tok::Var("falsey"),
            Tok::Var("x") => Tok::Var("true1"),
            Tok::Var("c") => Tok::Var("Truth"),
            o => o.clone(),
        })
        .collect()
}
/// identifiers in which a keyword is continued by a non-ASCII letter
fn rename5(toks: &[Tok]) -> Vec<Tok> {
    toks.iter()
        .map(|t| match t {
            Tok::Var("a") => Tok::Var("notável"),
            Tok::Var("b") => Tok::Var("oré"),
            Tok::Var("x") => Tok::Var("andñ"),
            Tok::Var("c") => Tok::Var("trueü"),
            o => o.clone(),
        })
        .collect()
}

/// fractional number literals (2.5x, 2.5(x + 1))
fn renum(toks: &[Tok]) -> Vec<Tok> {
    toks.iter()
        .map(|t| match t {
            Tok::Num("2") => Tok::Num("2.5"),
            o => o.clone(),
        })
        .collect()
}

fn well_typed(a: &Ast) -> Option<bool> {
    // Some(true) = boolean, Some(false) = numeric, None = ill-typed for the transformer
    match a {
        Ast::Num(_) => Some(false),
        Ast::Var(v) => Some(!(v == "x" || v.ends_with("notx") || v == "inx" || v == "e1")),
        Ast::Neg(e) => well_typed(e).map(|_| false),
        Ast::Not(e) => match well_typed(e) {
            Some(true) => Some(true),
            _ => None,
        },
        Ast::Bin(op, l, r) => {
            let (l, r) = (well_typed(l)?, well_typed(r)?);
            if op.is_logic() {
                if l && r { Some(true) } else { None }
            } else {
                Some(false)
            }
        }
    }
}

fn check(toks: &[Tok], l: &mut Local) {
    let reference = match RefParser::parse(toks) {
        Ok(a) => a,
        Err(e) => {
            l.violation("GENERATOR-SELFCHECK", format!("generated sequence rejected by the reference parser: {e}"), json!({"tokens": format!("{:?}", toks)}));
            return;
        }
    };
    let want = reference.sexpr();
    l.nontrivial(&want);
    let n_bin = toks.iter().filter(|t| matches!(t, Tok::Bin(_))).count();
    if n_bin >= 2 {
        l.count("sequences_with_two_or_more_binary_ops");
    }
    let variants: Vec<(&str, Vec<Tok>, bool, bool)> = vec![
        ("words", toks.to_vec(), false, false),
        ("aliases", toks.to_vec(), true, false),
        ("words-tight", toks.to_vec(), false, true),
        ("aliases-tight", toks.to_vec(), true, true),
        ("keyword-prefixed-names", rename(toks), false, false),
        ("keyword-prefixed-names-2", rename2(toks), true, true),
        ("exponent-like-names", rename3(toks), false, true),
        ("fractional-literals", renum(toks), false, true),
        ("literal-keyword-prefixed-names", rename4(toks), false, false),
        ("literal-keyword-prefixed-names-tight", rename4(toks), true, true),
        ("keyword-continued-by-non-ascii-letter", rename5(toks), false, false),
        ("keyword-continued-by-non-ascii-letter-tight", rename5(toks), false, true),
    ];
    for (vname, vt, alias, tight) in variants {
        let text = render_tokens(&vt, alias, tight);
        let want_v = match RefParser::parse(&vt) {
            Ok(a) => a.sexpr(),
            Err(_) => continue,
        };
        for pos in ["objective", "constraint"] {
            let src = if pos == "objective" { format!("min {text}\ns.t.\n    1 >= 0\n") } else { format!("min 1\ns.t.\n    {text} >= 0\n") };
            l.count("parses");
            let case = |got: &str| json!({"source": src, "expression": text, "reference": want_v, "rooc": got, "variant": vname, "position": pos});
            match crate::core::catch(|| RoocParser::new(src.clone()).parse()) {
                Err(p) => l.violation(format!("panic:{vname}"), format!("parser panicked: {p}"), case("panic")),
                Ok(Err(e)) => {
                    l.violation(format!("rejects-well-formed:{vname}:{pos}"), format!("`{text}` is rejected: {}", e.to_string().lines().next().unwrap_or("")), case("error"));
                }
                Ok(Ok(pm)) => {
                    let got = if pos == "objective" { preexp_sexpr(&pm.objective().rhs) } else { pm.constraints().first().map(|c| preexp_sexpr(&c.lhs)).unwrap_or_default() };
                    if got != want_v {
                        let sig = shape_signature(&reference);
                        l.violation(format!("wrong-grouping:{vname}:{sig}"), format!("`{text}` groups as {got}, documented grammar gives {want_v}"), case(&got));
                    }
                }
            }
        }
    }
    // compiled expression (well-typed sequences): shape must survive the transformer
    if let Some(is_bool) = well_typed(&reference) {
        let text = render_tokens(toks, false, false);
        let src = if is_bool {
            format!("min 1\ns.t.\n    {text}\ndefine\n    a, b, c as Boolean\n    x as Real\n")
        } else {
            format!("min {text}\ns.t.\n    1 >= 0\ndefine\n    a, b, c as Boolean\n    x as Real\n")
        };
        if let Ok(Ok(m)) = crate::core::catch(|| RoocParser::new(src.clone()).parse_and_transform(vec![], &IndexMap::new())) {
            l.count("compiled");
            let got = if is_bool { m.constraints().first().map(|c| exp_sexpr(c.lhs())).unwrap_or_default() } else { exp_sexpr(&m.objective().rhs) };
            // the transformer spells binary logic operators as n-ary/structural variants with the same operands
            if got != want {
                l.violation("compiled-shape-differs", format!("`{text}` compiles to {got}, documented grammar gives {want}"), json!({"source": src, "reference": want, "rooc": got}));
            }
        } else {
            l.count("not-compiled(type or usage)");
        }
    }
    l.sample(|| json!({"tokens": render_tokens(toks, false, false), "reference": want}));
}


/// Long flat chains on one precedence level: `t0 op t1 op ... op tn` with the operators of one level
/// (+ and -, or * and /). The documented grammar reads them left to right; the compiled objective's
/// coefficients (which fix the value at every assignment) are compared with that reading.
fn long_chain_cases() -> Vec<(usize, Vec<usize>, bool)> {
    // (number of terms, positions of the second operator of the level (- or /), multiplicative)
    let mut out = vec![];
    for &n in &[8usize, 16, 31, 32, 33, 34, 35, 40] {
        out.push((n, vec![], false));
        for i in 1..n {
            out.push((n, vec![i], false));
            for j in i + 1..n {
                out.push((n, vec![i, j], false));
            }
        }
    }
    for &n in &[48usize, 64, 65, 96, 128] {
        out.push((n, vec![], false));
        for i in 1..n {
            out.push((n, vec![i], false));
        }
        for step in [2usize, 3, 5] {
            for phase in 0..step {
                out.push((n, (1..n).filter(|i| i % step == phase).collect(), false));
            }
        }
        // two minus signs at the binary split points and next to them
        for a in [n / 4, n / 2 - 1, n / 2, n / 2 + 1] {
            for b in [n / 2 + 1, n / 2 + n / 4, n / 2 + n / 4 + 1, n - 2] {
                if a < b {
                    out.push((n, vec![a, b], false));
                }
            }
        }
    }
    for &n in &[8usize, 16, 32, 33, 34, 40] {
        out.push((n, vec![], true));
        for i in 1..n {
            out.push((n, vec![i], true));
            for j in i + 1..n {
                out.push((n, vec![i, j], true));
            }
        }
    }
    out
}

fn check_long_chain(n: usize, second: &[usize], mul: bool, l: &mut Local) {
    use rooc::Linearizer;
    let vars = ["x", "y", "z"];
    let mut text = String::new();
    // reference: left-to-right reading
    let mut want: std::collections::BTreeMap<&str, f64> = vars.iter().map(|v| (*v, 0.0)).collect();
    let mut want_const = 0.0f64;
    let mut factor = 1.0f64;
    for i in 0..n {
        let is_second = second.contains(&i);
        if mul {
            // x * 2 / 2 * 2 ...: the first term is the variable, the others the constant 2 (dyadic: exact in f64)
            if i == 0 {
                text.push('x');
            } else {
                text.push_str(if is_second { " / 2" } else { " * 2" });
                factor = if is_second { factor / 2.0 } else { factor * 2.0 };
            }
        } else {
            if i > 0 {
                text.push_str(if is_second { " - " } else { " + " });
            }
            let sign = if is_second { -1.0 } else { 1.0 };
            if i % 7 == 6 {
                text.push('1');
                want_const += sign;
            } else {
                let v = vars[(i + i / 5) % 3];
                text.push_str(v);
                *want.get_mut(v).unwrap() += sign;
            }
        }
    }
    if mul {
        // keep the factor within exactly representable range (it is by construction for n <= 40: 2^-39 .. 2^39)
        *want.get_mut("x").unwrap() = factor;
    }
    l.count("long_chains");
    l.nontrivial(&(n, second.len(), mul, second.first().copied()));
    for (pos, src) in [
        ("top-level", format!("min {text}\ns.t.\n    x >= 0\ndefine\n    x, y, z as Real\n")),
        ("parenthesised", format!("min 2({text})\ns.t.\n    x >= 0\ndefine\n    x, y, z as Real\n")),
    ] {
        let scale = if pos == "parenthesised" { 2.0 } else { 1.0 };
        let case = |got: String| json!({"source": src, "terms": n, "second_operator_positions": second, "reference": format!("{want:?} + {want_const}"), "rooc": got, "position": pos});
        let sig = |k: &str| format!("long-chain:{}:{k}", if mul { "mul-div" } else { "add-sub" });
        let res = crate::core::catch(|| {
            let m = RoocParser::new(src.clone()).parse_and_transform(vec![], &IndexMap::new()).map_err(|e| e.to_string())?;
            Linearizer::linearize(m).map_err(|e| e.to_string())
        });
        match res {
            Err(p) => l.violation(sig("panic"), format!("{n}-term chain panics: {p}"), case("panic".into())),
            Ok(Err(e)) => l.violation(sig("rejected"), format!("{n}-term chain is rejected: {}", e.lines().next().unwrap_or("")), case(e.clone())),
            Ok(Ok(lin)) => {
                let obj = lin.objective();
                let mut bad = None;
                for (name, c) in lin.variables().iter().zip(obj.iter()) {
                    let w = want.get(name.as_str()).copied().unwrap_or(0.0) * scale;
                    if (c - w).abs() > 1e-9 * w.abs().max(1.0) {
                        bad = Some(format!("coefficient of {name} is {c}, left-to-right reading gives {w}"));
                    }
                }
                let off = lin.objective_offset();
                if (off - want_const * scale).abs() > 1e-9 {
                    bad = Some(format!("constant term is {off}, left-to-right reading gives {}", want_const * scale));
                }
                if let Some(b) = bad {
                    l.violation(sig("wrong-value"), format!("{n}-term chain with the second operator at {second:?} ({pos}): {b}"), case(format!("{:?} + {off}", obj)));
                }
            }
        }
    }
}

/// (parent op, child op, side) of the first same-or-lower precedence nesting: the call-site of a grouping defect
fn shape_signature(a: &Ast) -> String {
    fn find(a: &Ast) -> Option<String> {
        match a {
            Ast::Bin(p, l, r) => {
                for (c, side) in [(l, "left"), (r, "right")] {
                    match &**c {
                        Ast::Bin(q, _, _) if q.prec() <= p.prec() => return Some(format!("{}>{}@{}", p.name(), q.name(), side)),
                        Ast::Neg(_) | Ast::Not(_) => {}
                        _ => {}
                    }
                }
                find(l).or_else(|| find(r)).or(Some(format!("{}", p.name())))
            }
            Ast::Neg(e) | Ast::Not(e) => find(e).or(Some("prefix".into())),
            _ => None,
        }
    }
    find(a).unwrap_or_else(|| "leaf".into())
}

#[allow(dead_code)]
fn unused(_: B) {}

pub fn run(mut run: Run) -> ! {
    crate::core::silence_panics();
    let max_len = if run.quick() { 7 } else { 8 };
    let seqs = Arc::new(gen_all(max_len, &["a", "b", "x"], &["2"]));
    run.rule = format!("all well-formed token sequences of length <= {max_len} over operands {{a,b,x,2}}, 9 binary operators, prefix - and not, parentheses and implicit multiplication (number|parenthesis)+ variable?, generated by a grammar-directed DFS (complete over well-formed sequences); each is rendered with keywords, with symbolic aliases, with/without whitespace with identifiers that start with an operator keyword, with a literal keyword (truex, falsey, true1) or with a keyword continued by a non-ASCII letter (notável, oré) and with identifiers that look like a decimal exponent (e, e1, E2) glued to a number, and with fractional literals, in objective and constraint position; plus long flat chains on one level (8..128 terms of + and -, 8..40 factors of * and /, the second operator of the level at every single position and every pair of positions up to 40 terms, periodic patterns and split-point pairs beyond), compiled at top level and under a parenthesised factor and compared by objective coefficients with the left-to-right reading; distinct = reference tree shapes");
    run.assume("reference: precedence climbing with one prefix operator per leaf binding tightest, * / > + - > and > xor > or > {implies right, iff left} on one level, implicit multiplication forming one left-folded factor; shapes (not only values) are compared, which is stronger than the property");
    let s2 = seqs.clone();
    run.family(&format!("token-sequences-len<={max_len}"), seqs.len() as u64, move |i, l| {
        check(&s2[i as usize], l);
    });
    let chains = Arc::new(long_chain_cases());
    let c2 = chains.clone();
    run.family("long-flat-chains", chains.len() as u64, move |i, l| {
        let (n, second, mul) = &c2[i as usize];
        check_long_chain(*n, second, *mul, l);
    });
    run.require("long_chains");
    run.require("parses");
    run.require("compiled");
    run.require("sequences_with_two_or_more_binary_ops");
    run.finish()
}
