//! C03 — end-to-end answers are right: optimum, infeasible, or error.
//! Source TEXT (rendered from a generator AST in several spellings) -> RoocSolver -> auto_solver,
//! judged by an independent interpreter of the generator AST.
use crate::core::{Digits, Local, Run};
use crate::exact::{Q, Rel, q, qf, to_f64};
use crate::linsem::*;
use crate::lm::{Dom, Sense};
use crate::props::c01::{Case, family_a, family_a_size};
use crate::props::c02;
use crate::refsem::{Env, eval};
use num_traits::Signed;
use rooc::model_transformer::Exp;
use rooc::{BinOp, RoocSolver, RoocSolverError, SolverError, UnOp};
use serde_json::json;

#[derive(Clone, Copy, PartialEq)]
enum Style {
    Keywords,
    Symbols,
    Named,
}
const STYLES: [(Style, &str); 3] = [(Style::Keywords, "keywords-explicit"), (Style::Symbols, "aliases-implicit-mul"), (Style::Named, "where-constants-named-rows-parens")];

struct Renderer {
    style: Style,
    consts: Vec<(String, f64)>,
}

impl Renderer {
    fn number(&mut self, n: f64) -> String {
        if self.style == Style::Named && n.fract() != 0.0 {
            // fractional literals become named constants
            if let Some((name, _)) = self.consts.iter().find(|c| c.1 == n) {
                return name.clone();
            }
            let name = format!("k{}", self.consts.len());
            self.consts.push((name.clone(), n));
            return name;
        }
        if n < 0.0 { format!("(-{})", -n) } else { format!("{n}") }
    }
    fn atom(&mut self, e: &Exp) -> String {
        // operand position: parenthesise everything that is not a leaf or a block
        match e {
            Exp::Number(_) | Exp::Variable(_) | Exp::Abs(_) | Exp::Min(_) | Exp::Max(_) => self.exp(e),
            _ => format!("({})", self.exp(e)),
        }
    }
    fn exp(&mut self, e: &Exp) -> String {
        let sym = self.style == Style::Symbols;
        match e {
            Exp::Number(n) => self.number(*n),
            Exp::Variable(v) => v.clone(),
            Exp::Abs(i) => format!("abs{{ {} }}", self.exp(i)),
            Exp::Min(v) => format!("min{{ {} }}", v.iter().map(|x| self.exp(x)).collect::<Vec<_>>().join(", ")),
            Exp::Max(v) => format!("max{{ {} }}", v.iter().map(|x| self.exp(x)).collect::<Vec<_>>().join(", ")),
            Exp::And(v) => {
                if v.len() == 2 && !matches!(self.style, Style::Named) {
                    format!("{} {} {}", self.atom(&v[0]), if sym { "&&" } else { "and" }, self.atom(&v[1]))
                } else {
                    format!("all{{ {} }}", v.iter().map(|x| self.exp(x)).collect::<Vec<_>>().join(", "))
                }
            }
            Exp::Or(v) => {
                if v.len() == 2 && !matches!(self.style, Style::Named) {
                    format!("{} {} {}", self.atom(&v[0]), if sym { "||" } else { "or" }, self.atom(&v[1]))
                } else {
                    format!("any{{ {} }}", v.iter().map(|x| self.exp(x)).collect::<Vec<_>>().join(", "))
                }
            }
            Exp::Not(i) => format!("{}{}", if sym { "!" } else { "not " }, self.atom(i)),
            Exp::Xor(a, b) => format!("{} xor {}", self.atom(a), self.atom(b)),
            Exp::Implies(a, b) => format!("{} {} {}", self.atom(a), if sym { "->" } else { "implies" }, self.atom(b)),
            Exp::Iff(a, b) => format!("{} {} {}", self.atom(a), if sym { "<->" } else { "iff" }, self.atom(b)),
            Exp::UnOp(UnOp::Neg, i) => format!("-{}", self.atom(i)),
            Exp::UnOp(UnOp::Not, i) => format!("{}{}", if sym { "!" } else { "not " }, self.atom(i)),
            Exp::BinOp(BinOp::Div, a, b) if !sym && add_chain(a).len() >= 2 && matches!(&**b, Exp::Number(n) if *n == add_chain(a).len() as f64) => {
                // (t1 + ... + tn) / n is the avg block (the Symbols spelling keeps the explicit division)
                let terms = add_chain(a);
                format!("avg{{ {} }}", terms.iter().map(|x| self.exp(x)).collect::<Vec<_>>().join(", "))
            }
            Exp::BinOp(op, a, b) => {
                // implicit multiplication: positive literal times variable or parenthesis
                if sym && *op == BinOp::Mul {
                    if let Exp::Number(k) = &**a {
                        if *k > 0.0 {
                            return match &**b {
                                Exp::Variable(v) => format!("{k}{v}"),
                                other => format!("{k}({})", self.exp(other)),
                            };
                        }
                    }
                }
                let o = match op {
                    BinOp::Add => "+",
                    BinOp::Sub => "-",
                    BinOp::Mul => "*",
                    BinOp::Div => "/",
                    BinOp::And => if sym { "&&" } else { "and" },
                    BinOp::Or => if sym { "||" } else { "or" },
                    BinOp::Xor => "xor",
                    BinOp::Implies => if sym { "->" } else { "implies" },
                    BinOp::Iff => if sym { "<->" } else { "iff" },
                };
                format!("{} {} {}", self.atom(a), o, self.atom(b))
            }
        }
    }
}

/// the terms of a left-nested sum
fn add_chain(e: &Exp) -> Vec<&Exp> {
    match e {
        Exp::BinOp(BinOp::Add, a, b) => {
            let mut v = add_chain(a);
            v.push(b);
            v
        }
        other => vec![other],
    }
}

pub enum Style16 {
    Inline,
}
/// keywords spelling with the model's own row names (C16)
pub fn render_for_c16(m: &SrcModel, _s: Style16) -> String {
    render_opts(m, Style::Keywords, true, true).0
}
/// fractional literals replaced by names that are NOT declared in the text: the caller supplies them through the API
pub fn render_with_api_constants(m: &SrcModel) -> (String, Vec<(String, f64)>) {
    render_opts(m, Style::Named, true, false)
}

fn render(m: &SrcModel, style: Style) -> String {
    render_opts(m, style, false, true).0
}

fn render_opts(m: &SrcModel, style: Style, model_names: bool, emit_where: bool) -> (String, Vec<(String, f64)>) {
    let mut r = Renderer { style, consts: vec![] };
    let mut s = String::new();
    match m.sense {
        Sense::Min => s.push_str(&format!("min {}\n", r.exp(&m.obj))),
        Sense::Max => s.push_str(&format!("max {}\n", r.exp(&m.obj))),
        Sense::Satisfy => s.push_str("solve\n"),
    }
    s.push_str(if style == Style::Symbols { "subject to\n" } else { "s.t.\n" });
    for (i, c) in m.cons.iter().enumerate() {
        let name = if model_names { if c.name.is_empty() { String::new() } else { format!("{}: ", c.name) } } else if style == Style::Named { format!("row_{i}: ") } else { String::new() };
        if c.bare {
            s.push_str(&format!("    {name}{}\n", r.exp(&c.lhs)));
        } else {
            s.push_str(&format!("    {name}{} {} {}\n", r.exp(&c.lhs), crate::lm::rel_str(c.rel), r.exp(&c.rhs)));
        }
    }
    if m.cons.is_empty() {
        s.push_str("    0 <= 1\n");
    }
    if !r.consts.is_empty() && emit_where {
        s.push_str("where\n");
        for (i, (n, v)) in r.consts.iter().enumerate() {
            if i > 0 {
                // later constants are written relative to the first one (constants that reference constants)
                let (n0, v0) = &r.consts[0];
                let d = v - v0;
                s.push_str(&format!("    let {n} = {n0} {} {}\n", if d < 0.0 { "-" } else { "+" }, d.abs()));
            } else {
                // a fraction with denominator 2 or 4 is written as a quotient of integers (constant arithmetic)
                let quotient = |v: f64| -> Option<String> {
                    for den in [2.0, 4.0] {
                        let num = v * den;
                        if num.fract() == 0.0 && v.fract() != 0.0 {
                            return Some(format!("{} / {}", num, den));
                        }
                    }
                    None
                };
                let text = match quotient(v.abs()) {
                    Some(qt) if *v < 0.0 => format!("0 - {qt}"),
                    Some(qt) => qt,
                    None if *v < 0.0 => format!("0 - {}", -v),
                    None => format!("{v}"),
                };
                s.push_str(&format!("    let {n} = {text}\n"));
            }
        }
    }
    s.push_str("define\n");
    for (n, d) in &m.vars {
        s.push_str(&format!("    {n} as {}\n", d.show()));
    }
    (s, r.consts)
}

/// reference interpreter: exact optimum over the declared (bounded) domains; None = infeasible
/// With one continuous variable the answer is exact. With several, the others range over a rational grid:
/// the result is then the best *witness* found (an inner approximation: a feasible point with that
/// objective exists, better ones may exist) and `exact_reference` is false.
fn exact_reference(m: &SrcModel) -> bool {
    m.continuous_vars().len() <= 1
}
fn reference_optimum(m: &SrcModel) -> Option<Result<Option<(Q, Env)>, String>> {
    let cont: Vec<String> = m.continuous_vars().iter().map(|&i| m.vars[i].0.clone()).collect();
    let x = cont.first().cloned();
    if let Some(x) = &x {
        let under = m.cons.iter().any(|c| occurs_under_logic(&c.lhs, x, false) || occurs_under_logic(&c.rhs, x, false)) || occurs_under_logic(&m.obj, x, false);
        if under {
            return None;
        }
    }
    let mut best: Option<(Q, Env)> = None;
    let mut consider = |env: &Env, best: &mut Option<(Q, Env)>| -> Result<(), String> {
        match m.sat(env) {
            Ok(true) => {
                let v = if m.sense == Sense::Satisfy { q(0) } else { eval(&m.obj, env).map_err(|e| format!("{:?}", e))? };
                let better = match best {
                    None => true,
                    Some((b, _)) => (m.sense == Sense::Max && v > *b) || (m.sense != Sense::Max && v < *b),
                };
                if better {
                    *best = Some((v, env.clone()));
                }
                Ok(())
            }
            Ok(false) => Ok(()),
            Err(e) => Err(format!("{:?}", e)),
        }
    };
    for d in discrete_assignments(m, x.as_deref(), &crate::props::c01::grid()) {
        match &x {
            None => {
                if let Err(e) = consider(&d, &mut best) {
                    return Some(Err(e));
                }
            }
            Some(x) => {
                // a piecewise-linear objective over a closed bounded piecewise-linear set attains its optimum at a breakpoint
                let mut pts = source_breakpoints(m, x, &d);
                pts.extend(breakpoints(&m.obj, x, &d));
                pts.sort();
                pts.dedup();
                for t in pts {
                    let mut env = d.clone();
                    env.insert(x.clone(), t);
                    if let Err(e) = consider(&env, &mut best) {
                        return Some(Err(e));
                    }
                }
            }
        }
    }
    Some(Ok(best))
}

fn bounded(m: &SrcModel) -> bool {
    m.vars.iter().all(|v| {
        let (lo, hi) = v.1.bounds();
        lo.is_finite() && hi.is_finite()
    })
}

fn check_case(case: &Case, l: &mut Local) {
    let m = &case.model;
    // a finite declared range of astronomic size is what the exact lowerings take as their big-M constant:
    // failures on such models are reported under one call-site class instead of the per-model signature
    let huge = m.vars.iter().any(|(_, d)| {
        let (lo, hi) = d.bounds();
        (lo.is_finite() && lo.abs() >= 1e15) || (hi.is_finite() && hi.abs() >= 1e15)
    });
    let case_signature = if huge { "huge-declared-range".to_string() } else { case.signature.clone() };
    if huge {
        l.count("models-with-huge-declared-range");
    }
    if !bounded(m) {
        l.count("skipped:unbounded-declaration");
        return;
    }
    let Some(reference) = reference_optimum(m) else {
        l.count("skipped:not-decidable-by-reference");
        return;
    };
    let reference = match reference {
        Ok(r) => r,
        Err(_) => {
            l.count("skipped:source-undefined");
            return;
        }
    };
    let exact = exact_reference(m);
    if exact {
        l.count(if reference.is_some() { "reference:feasible" } else { "reference:infeasible" });
    } else {
        l.count(if reference.is_some() { "witness-reference:feasible-point-known" } else { "witness-reference:no-feasible-point-among-the-test-points" });
    }
    for (style, sname) in STYLES {
        let text = render(m, style);
        l.count("texts");
        let case_json = |what: String| json!({"source": text, "spelling": sname, "what": what, "reference": reference.as_ref().map(|(v, e)| (v.to_string(), e.iter().map(|(k, v)| format!("{k}={v}")).collect::<Vec<_>>())), "signature": case.signature});
        l.sample(|| case_json("sample".into()));
        crate::core::set_phase(&format!("solve {sname}"));
        let result = crate::core::catch(|| RoocSolver::try_new(text.clone()).map(|s| s.solve_using(rooc::auto_solver)));
        let sig = |k: &str| format!("{k}:{}", case_signature);
        let result = match result {
            Err(p) => {
                l.violation(sig("panic"), p.clone(), case_json(p));
                continue;
            }
            Ok(Err(e)) => {
                l.violation(format!("rendered-text-does-not-parse:{sname}"), format!("{:?}", e).chars().take(200).collect::<String>(), case_json("parse error".into()));
                continue;
            }
            Ok(Ok(r)) => r,
        };
        // with a witness reference nothing is known about a model without a feasible test point
        let unknown: (Q, Env) = (q(0), Env::new());
        let reference_view: Option<&(Q, Env)> = match (&reference, exact) {
            (Some(r), _) => Some(r),
            (None, false) => Some(&unknown),
            (None, true) => None,
        };
        let witness_only = !exact;
        let nothing_known = !exact && reference.is_none();
        match (result, reference_view) {
            (Ok(sol), Some((zstar, _))) => {
                l.count("answer:solution");
                l.nontrivial(&text);
                // returned values
                let mut env = Env::new();
                let mut missing = false;
                for (n, d) in &m.vars {
                    match sol.value_of(n) {
                        Some(v) => {
                            let f: f64 = v.into();
                            if !f.is_finite() {
                                missing = true;
                            } else {
                                let fv = if d.is_int() { f.round() } else { f };
                                env.insert(n.clone(), qf(fv));
                            }
                        }
                        None => {
                            // variables that do not occur anywhere need no value
                            if m.references().contains(n) {
                                missing = true;
                            } else {
                                let (lo, _) = d.bounds();
                                env.insert(n.clone(), qf(lo));
                            }
                        }
                    }
                }
                if missing {
                    l.violation(sig("variable-without-value"), "a variable that occurs in the text has no (finite) value in the solution", case_json(format!("{}", sol)));
                    continue;
                }
                // constraints of the text at the returned values (1e-6)
                let eps = 1e-6;
                let mut ok = true;
                for (n, d) in &m.vars {
                    let v = to_f64(&env[n]);
                    let (lo, hi) = d.bounds();
                    if v < lo - eps || v > hi + eps {
                        l.violation(sig("returned-value-outside-domain"), format!("{n} = {v} outside [{lo},{hi}]"), case_json(format!("{}", sol)));
                        ok = false;
                    }
                }
                for (ci, c) in m.cons.iter().enumerate() {
                    let holds = if c.bare {
                        eval(&c.lhs, &env).map(|v| to_f64(&v).abs() > 0.5).unwrap_or(false)
                    } else {
                        match (eval(&c.lhs, &env), eval(&c.rhs, &env)) {
                            (Ok(a), Ok(b)) => {
                                let d = to_f64(&(a - b));
                                match c.rel {
                                    Rel::Le => d <= eps,
                                    Rel::Ge => d >= -eps,
                                    Rel::Eq => d.abs() <= eps,
                                }
                            }
                            _ => false,
                        }
                    };
                    if !holds {
                        l.violation(sig("returned-values-violate-constraint"), format!("constraint {ci} does not hold at the returned values"), case_json(format!("{}", sol)));
                        ok = false;
                    }
                }
                if !ok {
                    continue;
                }
                if m.sense != Sense::Satisfy {
                    let z = to_f64(zstar);
                    let at = eval(&m.obj, &env).map(|v| to_f64(&v)).unwrap_or(f64::NAN);
                    if (sol.value() - at).abs() > eps * at.abs().max(1.0) {
                        l.violation(sig("reported-objective-differs-from-text-objective"), format!("reported {} but the text's objective at the returned values is {at}", sol.value()), case_json(format!("{}", sol)));
                    } else if nothing_known {
                        l.count("witness-reference:only-the-certificate-checked");
                    } else if witness_only {
                        // a feasible point with objective z exists: the reported optimum must not be worse
                        let worse = if m.sense == Sense::Max { sol.value() < z - eps * z.abs().max(1.0) } else { sol.value() > z + eps * z.abs().max(1.0) };
                        if worse {
                            l.violation(sig("not-optimal"), format!("reported optimum {} but a satisfying assignment with objective {z} exists", sol.value()), case_json(format!("{}", sol)));
                        }
                    } else if (sol.value() - z).abs() > eps * z.abs().max(1.0) {
                        l.violation(sig("not-optimal"), format!("reported optimum {} but the true optimum is {z}", sol.value()), case_json(format!("{}", sol)));
                    }
                }
            }
            (Ok(sol), None) => l.violation(sig("solution-for-infeasible-text"), "a solution is returned although no assignment satisfies the text", case_json(format!("{}", sol))),
            (Err(RoocSolverError::Solver(SolverError::Infeasible)), None) => l.count("answer:infeasible"),
            (Err(e), None) => {
                let kind = match &e {
                    RoocSolverError::Transform(_) => "transform-error",
                    RoocSolverError::Linearization(_) => "linearization-error",
                    RoocSolverError::Solver(_) => "other-solver-error",
                };
                l.violation(format!("infeasible-text-answered-with-{kind}:{}", case_signature), format!("no assignment satisfies the text; expected the solver's infeasible verdict, got {e}"), case_json(format!("{e}")));
            }
            (Err(RoocSolverError::Solver(SolverError::Infeasible)), Some(_)) if nothing_known => l.count("witness-reference:infeasible-verdict-not-decided"),
            (Err(e), Some(_)) if nothing_known => {
                // even without a reference a text over bounded domains is never answered with a compilation error
                let kind = match &e {
                    RoocSolverError::Transform(_) => "transform-error",
                    RoocSolverError::Linearization(_) => "linearization-error",
                    RoocSolverError::Solver(_) => "other-solver-error",
                };
                l.violation(format!("text-answered-with-{kind}:{}", case_signature), format!("expected a solution or the infeasible verdict, got {e}"), case_json(format!("{e}")));
            }
            (Err(e), Some(_)) => {
                let kind = match &e {
                    RoocSolverError::Transform(_) => "transform-error",
                    RoocSolverError::Linearization(_) => "linearization-error",
                    RoocSolverError::Solver(SolverError::Infeasible) => "infeasible",
                    RoocSolverError::Solver(SolverError::Unbounded) => "unbounded",
                    RoocSolverError::Solver(_) => "other-solver-error",
                };
                l.violation(format!("feasible-text-answered-with-{kind}:{}", case_signature), format!("a satisfying assignment exists but the answer is {e}"), case_json(format!("{e}")));
            }
        }
    }
}

/// family BK: Boolean compile-time constants. Every binary logic operator (keyword and symbolic spelling) over
/// all four rows of its truth table, plus `not`, evaluated at compile time in three positions (a where-constant
/// built from two named constants, an inline constant expression in a row, a declaration bound) and used as a
/// number: the optimum of `max x` under `x <= 3 + 4 * k` must be 3 + 4 * [k].
const BK_OPS: [(&str, &str); 11] = [("and", "and"), ("or", "or"), ("xor", "xor"), ("implies", "implies"), ("iff", "iff"), ("and", "&&"), ("or", "||"), ("implies", "->"), ("iff", "<->"), ("not", "not"), ("not", "!")];
fn family_bk_size() -> u64 {
    (BK_OPS.len() * 4 * 3) as u64
}
fn check_bk(i: u64, l: &mut Local) {
    let mut d = Digits(i);
    let (op, spelling) = *d.of(&BK_OPS);
    let p = d.pick(2) == 1;
    let q = d.pick(2) == 1;
    let position = d.pick(3);
    let truth = match op {
        "and" => p && q,
        "or" => p || q,
        "xor" => p != q,
        "implies" => !p || q,
        "iff" => p == q,
        _ => !p,
    };
    let lit = |b: bool| if b { "true" } else { "false" };
    let unary = op == "not";
    let (text, expected) = match position {
        0 => {
            let k = if unary { format!("{spelling} p") } else { format!("p {spelling} q") };
            (format!("max x\ns.t.\n    x <= 3 + 4 * k\nwhere\n    let p = {}\n    let q = {}\n    let k = {k}\ndefine\n    x as IntegerRange(0, 10)\n", lit(p), lit(q)), 3.0 + 4.0 * truth as u8 as f64)
        }
        1 => {
            let k = if unary { format!("({spelling} {})", lit(p)) } else { format!("({} {spelling} {})", lit(p), lit(q)) };
            (format!("max x\ns.t.\n    x <= 3 + 4 * {k}\ndefine\n    x as IntegerRange(0, 10)\n"), 3.0 + 4.0 * truth as u8 as f64)
        }
        _ => {
            let k = if unary { format!("{spelling} {}", lit(p)) } else { format!("{} {spelling} {}", lit(p), lit(q)) };
            (format!("max x\ns.t.\n    x <= 9\nwhere\n    let k = {k}\ndefine\n    x as IntegerRange(0, 2 + 3 * k)\n"), 2.0 + 3.0 * truth as u8 as f64)
        }
    };
    l.count("texts");
    l.count("boolean-constant-texts");
    let signature = format!("boolean-constant op={op} spelling={spelling} p={p} q={q} position={position}");
    let case_json = |what: String| json!({"source": text, "what": what, "expected_optimum": expected, "signature": signature});
    l.sample(|| case_json("sample".into()));
    let result = crate::core::catch(|| RoocSolver::try_new(text.clone()).map(|s| s.solve_using(rooc::auto_solver)));
    match result {
        Err(p) => l.violation(format!("panic:{signature}"), p.clone(), case_json(p)),
        // a spelling the compiler refuses is no wrong answer: counted, not judged
        Ok(Err(_)) => l.count("boolean-constant-text-refused-by-the-parser"),
        Ok(Ok(Err(RoocSolverError::Solver(e)))) => {
            let msg = format!("{:?}", e).chars().take(200).collect::<String>();
            l.violation(format!("wrong-verdict:{signature}"), format!("the text has optimum {expected} but the solver answers {msg}"), case_json(msg.clone()));
        }
        Ok(Ok(Err(_))) => l.count("boolean-constant-text-refused-by-the-compiler"),
        Ok(Ok(Ok(sol))) => {
            l.count("answer:solution");
            l.nontrivial(&text);
            if (sol.value() - expected).abs() > 1e-6 {
                l.violation(format!("wrong-optimum:{signature}"), format!("reported optimum {} but the truth table gives {expected}", sol.value()), case_json(format!("{}", sol)));
            } else {
                l.count("boolean-constant-optimum-agrees-with-the-truth-table");
            }
        }
    }
}

pub fn run(mut run: Run) -> ! {
    crate::core::silence_panics();
    run.isolate = true;
    run.case_timeout_s = 30.0;
    let quick = run.quick();
    let depth = if quick { 2 } else { 3 };
    let ncores = crate::props::c01::cores().len();
    run.rule = format!("generator-AST models over bounded declarations (objective family: min/max of {ncores} cores in every chain of <= {depth} contexts x 4 declaration sets x 5 side-constraint sets; constraint family: the C01 core-in-context constraints with bounded declarations and objective max x / satisfy) are rendered to source TEXT in 3 spelling classes (keywords with explicit operators; symbolic aliases && || ! -> <-> with implicit multiplication and 'subject to'; fractional literals moved into where-constants (the first written as a quotient of integers, later ones defined relative to the first) with named rows and all/any blocks; a sum of n terms divided by n is written as an avg block in the first and third class) and solved with RoocSolver::try_new(text).solve_using(auto_solver); judged by an independent interpreter of the AST (exact optimum over the discrete domains x breakpoints of the continuous variable); distinct = source texts; non-trivial = a solution was returned");
    run.assume("reference interpreter = refsem evaluator + breakpoint enumeration: a piecewise-linear objective over a closed bounded piecewise-linear set attains its optimum at a breakpoint; exact for models with at most one continuous variable; tolerance 1e-6");
    run.assume("models with several continuous variables (families OD, D): the others range over a 9-point rational grid, so the reference is a witness (a feasible point with that objective exists): the returned values must satisfy the text, the reported objective must equal the text objective there and must not be worse than the witness; an infeasible verdict is only refuted by a witness");
    let n2 = c02::family_size_pub(depth.min(2), false);
    run.family("O-objective-texts", n2, move |i, l| {
        let c = c02::family_pub(i, depth.min(2), false);
        check_case(&c, l);
    });
    let na = family_a_size(depth, false);
    let ddepth = if quick { 0 } else { 1 };
    run.family("OD-objectives-over-several-continuous-variables", c02::family_d_size(ddepth), move |i, l| check_case(&c02::family_d(i, ddepth), l));
    run.family("D-constraints-over-several-continuous-variables", crate::props::c01::family_d_size(ddepth), move |i, l| {
        let mut c = crate::props::c01::family_d(i, ddepth);
        if i % 2 == 0 {
            c.model.sense = Sense::Max;
            c.model.obj = var("x");
        }
        check_case(&c, l);
    });
    let constraint_case = |i: u64, depth: usize, reduced: bool| {
        let mut c = family_a(i, depth, reduced);
        // give the feasibility models an objective on the continuous/integer variable
        if i % 2 == 0 {
            c.model.sense = Sense::Max;
            c.model.obj = var("x");
        }
        c
    };
    if quick {
        // chains of <= 2 contexts over the reduced menus, chains of <= 1 context over the full menus
        run.family("A2-constraint-texts", family_a_size(2, true), move |i, l| check_case(&constraint_case(i, 2, true), l));
        run.family("A1-constraint-texts", family_a_size(1, false), move |i, l| check_case(&constraint_case(i, 1, false), l));
    } else {
        run.family("A-constraint-texts", na, move |i, l| check_case(&constraint_case(i, depth, false), l));
    }
    // extra declaration forms: single-point integer range; finite range of +-1e18 (used as big-M by the exact lowerings)
    for (k, name) in [(0usize, "AX-single-point-integer-range"), (1, "AXH-huge-finite-range")] {
        run.family(name, crate::props::c01::family_ax_size(), move |i, l| {
            let mut c = crate::props::c01::family_ax(i, k);
            if i % 2 == 0 {
                c.model.sense = Sense::Max;
                c.model.obj = var("x");
            }
            check_case(&c, l)
        });
    }
    run.family("BK-boolean-compile-time-constants", family_bk_size(), check_bk);
    for k in ["texts", "answer:solution", "answer:infeasible", "reference:feasible", "reference:infeasible", "boolean-constant-optimum-agrees-with-the-truth-table"] {
        run.require(k);
    }
    run.finish()
}
