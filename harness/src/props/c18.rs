//! C18 — the compiler is total: no panic, abort, hang; every error renders.
//! Deviation-bounded exhaustive exploration: a corpus of valid programs (0 deviations), every
//! single token-level mutation of every corpus program (1 deviation), pairs of mutations within a
//! line (2 deviations, thorough), every nesting construct at every depth 1..64, every string of
//! length <= 3 over a 24-symbol alphabet in 5 syntactic slots. All in worker subprocesses.
use crate::core::{Local, Run};
use crate::props::c11::CORPUS;
use indexmap::IndexMap;
use rooc::{Linearizer, RoocParser};
use serde_json::json;
use std::sync::Arc;

#[derive(Clone, Debug, PartialEq)]
enum TokKind {
    Ws,
    Nl,
    Ident,
    Keyword,
    Number,
    Str,
    Comment,
    Sym,
}
#[derive(Clone, Debug)]
struct Tk {
    kind: TokKind,
    text: String,
}

const KEYWORDS: [&str; 22] = ["for", "min", "max", "where", "true", "false", "in", "as", "define", "let", "solve", "and", "or", "not", "implies", "iff", "xor", "s", "t", "subject", "to", "Graph"];

fn lex(src: &str) -> Vec<Tk> {
    let cs: Vec<char> = src.chars().collect();
    let mut i = 0;
    let mut out = vec![];
    while i < cs.len() {
        let c = cs[i];
        let start = i;
        let kind;
        if c == '\n' {
            i += 1;
            kind = TokKind::Nl;
        } else if c == ' ' || c == '\t' {
            while i < cs.len() && (cs[i] == ' ' || cs[i] == '\t') {
                i += 1;
            }
            kind = TokKind::Ws;
        } else if c.is_alphabetic() || c == '_' || c == '$' {
            while i < cs.len() && (cs[i].is_alphanumeric() || cs[i] == '_' || cs[i] == '$') {
                i += 1;
            }
            let t: String = cs[start..i].iter().collect();
            kind = if KEYWORDS.contains(&t.as_str()) { TokKind::Keyword } else { TokKind::Ident };
        } else if c.is_ascii_digit() {
            while i < cs.len() && cs[i].is_ascii_digit() {
                i += 1;
            }
            if i + 1 < cs.len() && cs[i] == '.' && cs[i + 1].is_ascii_digit() {
                i += 1;
                while i < cs.len() && cs[i].is_ascii_digit() {
                    i += 1;
                }
            }
            kind = TokKind::Number;
        } else if c == '"' {
            i += 1;
            while i < cs.len() && cs[i] != '"' && cs[i] != '\n' {
                i += 1;
            }
            if i < cs.len() && cs[i] == '"' {
                i += 1;
            }
            kind = TokKind::Str;
        } else if c == '/' && i + 1 < cs.len() && cs[i + 1] == '/' {
            while i < cs.len() && cs[i] != '\n' {
                i += 1;
            }
            kind = TokKind::Comment;
        } else if c == '/' && i + 1 < cs.len() && cs[i + 1] == '*' {
            i += 2;
            while i + 1 < cs.len() && !(cs[i] == '*' && cs[i + 1] == '/') {
                i += 1;
            }
            i = (i + 2).min(cs.len());
            kind = TokKind::Comment;
        } else {
            let rest: String = cs[i..(i + 3).min(cs.len())].iter().collect();
            let len = if rest.starts_with("<->") || rest.starts_with("..=") {
                3
            } else if ["<=", ">=", "..", "->", "&&", "||"].iter().any(|p| rest.starts_with(p)) {
                2
            } else {
                1
            };
            i += len;
            kind = TokKind::Sym;
        }
        out.push(Tk { kind, text: cs[start..i].iter().collect() });
    }
    out
}

#[derive(Clone, Debug)]
enum Mutation {
    Delete(usize),
    Duplicate(usize),
    SwapNext(usize),
    Replace(usize, String),
    InsertBefore(usize, String),
    Truncate(usize),
}

impl Mutation {
    fn pos(&self) -> usize {
        match self {
            Mutation::Delete(i) | Mutation::Duplicate(i) | Mutation::SwapNext(i) | Mutation::Replace(i, _) | Mutation::InsertBefore(i, _) => *i,
            Mutation::Truncate(_) => usize::MAX,
        }
    }
    fn class(&self, toks: &[Tk]) -> String {
        let k = |i: usize| format!("{:?}", toks[i].kind);
        match self {
            Mutation::Delete(i) => format!("delete:{}", k(*i)),
            Mutation::Duplicate(i) => format!("duplicate:{}", k(*i)),
            Mutation::SwapNext(i) => format!("swap:{}", k(*i)),
            Mutation::Replace(i, s) => format!("replace:{}:{}", k(*i), class_of_text(s)),
            Mutation::InsertBefore(_, s) => format!("insert:{}", class_of_text(s)),
            Mutation::Truncate(_) => "truncate".into(),
        }
    }
}

fn class_of_text(s: &str) -> String {
    if s.len() > 24 {
        return format!("{}...({} chars)", &s[..12], s.len());
    }
    s.replace('\n', "\\n")
}

const EXTREMES: [&str; 15] = [
    "0",
    // small values that are just out of range for the arrays, ranges and families of the corpus
    "3",
    "7",
    "9223372036854775807",
    "9223372036854775808",
    "18446744073709551615",
    "18446744073709551616",
    "4294967296",
    "2147483648",
    "0.0000001",
    "99999999999999999999999999999999999999",
    "1e308",
    "1.7976931348623157e308",
    "100000000",
    "0.000000000000000000000000000000000000000000000000000000000000000000000000000000000000000001",
];
const IDENT_REPLACEMENTS: [&str; 8] = ["for", "in", "min", "as", "true", "x_1", "$a", "\\x_1"];
const INSERTIONS: [&str; 18] = ["(", ")", "{", "}", "[", "]", ",", "_", "\\", "$", "\"", "\n", "-", "/", "*", "..", ":", "="];

fn mutations(toks: &[Tk], src_len_chars: usize) -> Vec<Mutation> {
    let mut v = vec![];
    for (i, t) in toks.iter().enumerate() {
        if t.kind == TokKind::Ws {
            continue;
        }
        v.push(Mutation::Delete(i));
        if t.kind != TokKind::Nl {
            v.push(Mutation::Duplicate(i));
        }
        if i + 1 < toks.len() {
            v.push(Mutation::SwapNext(i));
        }
        match t.kind {
            TokKind::Number => {
                for e in EXTREMES {
                    v.push(Mutation::Replace(i, e.to_string()));
                }
            }
            TokKind::Ident => {
                for r in IDENT_REPLACEMENTS {
                    v.push(Mutation::Replace(i, r.to_string()));
                }
            }
            TokKind::Keyword => v.push(Mutation::Replace(i, "k".to_string())),
            _ => {}
        }
        for ins in INSERTIONS {
            v.push(Mutation::InsertBefore(i, ins.to_string()));
        }
    }
    for n in 0..src_len_chars {
        v.push(Mutation::Truncate(n));
    }
    v
}

fn apply(toks: &[Tk], muts: &[Mutation]) -> String {
    let mut parts: Vec<String> = toks.iter().map(|t| t.text.clone()).collect();
    // apply from the highest position down so that indices stay valid
    let mut ms: Vec<&Mutation> = muts.iter().collect();
    ms.sort_by_key(|m| std::cmp::Reverse(m.pos()));
    let mut truncate: Option<usize> = None;
    for m in ms {
        match m {
            Mutation::Delete(i) => parts[*i] = String::new(),
            Mutation::Duplicate(i) => parts[*i] = format!("{0} {0}", parts[*i]),
            Mutation::SwapNext(i) => {
                // swap with the next non-whitespace token
                let mut j = *i + 1;
                while j < toks.len() && toks[j].kind == TokKind::Ws {
                    j += 1;
                }
                if j < toks.len() {
                    parts.swap(*i, j);
                }
            }
            Mutation::Replace(i, s) => parts[*i] = s.clone(),
            Mutation::InsertBefore(i, s) => parts[*i] = format!("{} {}", s, parts[*i]),
            Mutation::Truncate(n) => truncate = Some(*n),
        }
    }
    let s: String = parts.concat();
    match truncate {
        Some(n) => s.chars().take(n).collect(),
        None => s,
    }
}

/// run every public stage on `src`; violations for panics and failing error rendering
pub fn pipeline(src: &str, class: &str, l: &mut Local) {
    let fns = IndexMap::new();
    let stage = |s: &str| crate::core::set_phase(&format!("{class} stage={s}"));
    let case = |stage: &str, what: &str| json!({"source": src, "stage": stage, "what": what, "class": class});
    macro_rules! guarded {
        ($stage:expr, $body:expr) => {{
            stage($stage);
            match crate::core::catch(|| $body) {
                Ok(v) => Some(v),
                Err(p) => {
                    let short: String = p.chars().take(40).collect();
                    l.violation(format!("panic:{}:{}", $stage, short), format!("{} panicked: {}", $stage, p), case($stage, &p));
                    None
                }
            }
        }};
    }
    let parser = RoocParser::new(src.to_string());
    let Some(parsed) = guarded!("parse", parser.parse()) else { return };
    let pm = match parsed {
        Err(e) => {
            l.count("stage:parse:err");
            guarded!("render-parse-error", {
                let a = e.to_string_from_source(src);
                let b = e.to_error_string();
                let c = format!("{:?}", e);
                a.len() + b.len() + c.len()
            });
            return;
        }
        Ok(pm) => pm,
    };
    l.count("stage:parse:ok");
    guarded!("format", {
        let f = parser.format();
        let d = pm.to_string();
        (f.is_ok(), d.len())
    });
    let tc = guarded!("type_check", pm.create_type_checker(&vec![], &fns).map(|_| ()));
    if let Some(Err(e)) = &tc {
        l.count("stage:type_check:err");
        if let Some(r) = guarded!("render-type-error", (e.trace_from_source(src), e.traced_error(), e.to_string())) {
            if let Err(msg) = r.0 {
                l.violation("error-render-failed:type_check", format!("trace_from_source fails: {msg}"), case("type_check", &msg));
            }
        }
    }
    guarded!("type_check_api", parser.type_check(&vec![], &fns).is_ok());
    guarded!("token_type_map", pm.create_token_type_map(&vec![], &fns).len());
    let Some(tr) = guarded!("transform", pm.clone().transform(vec![], &fns)) else { return };
    let model = match tr {
        Err(e) => {
            l.count("stage:transform:err");
            if let Some(r) = guarded!("render-transform-error", (e.trace_from_source(src), e.traced_error(), e.to_string())) {
                if let Err(msg) = r.0 {
                    l.violation("error-render-failed:transform", format!("trace_from_source fails: {msg}"), case("transform", &msg));
                }
            }
            guarded!("transform_api", parser.parse_and_transform(vec![], &fns).is_ok());
            return;
        }
        Ok(m) => m,
    };
    l.count("stage:transform:ok");
    guarded!("model-display", model.to_string().len());
    let Some(lin) = guarded!("linearize", Linearizer::linearize(model)) else { return };
    let lm = match lin {
        Err(e) => {
            l.count("stage:linearize:err");
            guarded!("render-linearize-error", e.to_string().len());
            return;
        }
        Ok(lm) => lm,
    };
    l.count("stage:linearize:ok");
    guarded!("linear-display", (lm.to_string().len(), lm.to_lp_format().len()));
    if let Some(Ok(std)) = guarded!("standardise", lm.clone().into_standard_form()) {
        guarded!("standard-display", std.to_string().len());
        if lm.variables().len() <= 12 {
            guarded!("tableau", std.into_tableau().map(|mut t| t.solve(1000).is_ok()).is_ok());
        }
    }
    if let Some(r) = guarded!("solve", rooc::auto_solver(&lm)) {
        match r {
            Ok(s) => {
                l.count("stage:solve:ok");
                guarded!("solution-display", s.to_string().len());
            }
            Err(e) => {
                l.count("stage:solve:err");
                guarded!("render-solver-error", e.to_string().len());
            }
        }
    }
    // every other built-in solver entry point (each rejects the domains it does not support with an error)
    guarded!("solve-milp", rooc::solve_milp_lp_problem(&lm).map(|s| s.to_string().len()).map_err(|e| e.to_string().len()));
    guarded!("solve-microlp-real", rooc::solve_real_lp_problem_micro_lp(&lm).map(|s| s.to_string().len()).map_err(|e| e.to_string().len()));
    guarded!("solve-clarabel", rooc::solve_real_lp_problem_clarabel(&lm).map(|s| s.to_string().len()).map_err(|e| e.to_string().len()));
    if lm.variables().len() <= 12 {
        guarded!("solve-slow-simplex", rooc::solve_real_lp_problem_slow_simplex(&lm, 1000).map(|s| s.to_string().len()).map_err(|e| e.to_string().len()));
    }
    guarded!("one-shot", rooc::RoocSolver::try_new(src.to_string()).map(|s| s.solve_using(rooc::auto_solver).is_ok()).is_ok());
}

fn nesting_cases() -> Vec<(String, String)> {
    let mut v = vec![];
    let wrap = |obj: &str| format!("min {obj}\ns.t.\n    x >= 1\ndefine\n    x as NonNegativeReal(0, 9)\n    b as Boolean\n");
    for d in 1..=64usize {
        v.push((format!("nest:parentheses"), wrap(&format!("{}x{}", "(".repeat(d), ")".repeat(d)))));
        v.push((format!("nest:unary-minus"), wrap(&format!("{}x{}", "-(".repeat(d), ")".repeat(d)))));
        v.push((format!("nest:abs-block"), wrap(&format!("{}x{}", "abs{ ".repeat(d), " }".repeat(d)))));
        v.push((format!("nest:max-block"), wrap(&format!("{}x{}", "max{ x, ".repeat(d), " }".repeat(d)))));
        v.push((format!("nest:min-block"), wrap(&format!("{}x{}", "min{ 1, ".repeat(d), " }".repeat(d)))));
        v.push((format!("nest:scoped-sum"), wrap(&format!("{}x{}", "sum(i in 0..2) { ".repeat(d), " }".repeat(d)))));
        v.push((format!("nest:implicit-mul-chain"), wrap(&format!("{}x", "(2)".repeat(d)))));
        v.push((format!("nest:implicit-mul-nest"), wrap(&format!("{}x{}", "2(".repeat(d), ")".repeat(d)))));
        v.push((format!("nest:division-chain"), wrap(&format!("x{}", " / 2".repeat(d)))));
        v.push((format!("nest:subtraction-right"), wrap(&format!("{}x{}", "x - (".repeat(d), ")".repeat(d)))));
        v.push((
            format!("nest:not-chain"),
            format!("solve\ns.t.\n    {}b{}\ndefine\n    b as Boolean\n", "not (".repeat(d), ")".repeat(d)),
        ));
        v.push((
            format!("nest:implies-chain"),
            format!("solve\ns.t.\n    {}b\ndefine\n    b as Boolean\n", "b implies ".repeat(d)),
        ));
        v.push((
            format!("nest:array-literal"),
            format!("min x\ns.t.\n    x >= 1\nwhere\n    let A = {}1{}\ndefine\n    x as Real\n", "[".repeat(d), "]".repeat(d)),
        ));
        v.push((
            format!("nest:array-access"),
            format!("min x\ns.t.\n    x >= {}0{}\nwhere\n    let A = [0]\ndefine\n    x as Real\n", "A[".repeat(d), "]".repeat(d)),
        ));
        v.push((
            format!("nest:index-braces"),
            format!("min y_{}0{}\ns.t.\n    y_0 >= 1\ndefine\n    y_i as Real for i in 0..1\n", "{y_".repeat(d.min(1)).repeat(1) + &"{".repeat(d), "}".repeat(d) + "}"),
        ));
        v.push((
            format!("nest:for-iterations"),
            format!("min x\ns.t.\n    x >= 1 for {}\ndefine\n    x as Real\n", (0..d).map(|k| format!("i{k} in 0..1")).collect::<Vec<_>>().join(", ")),
        ));
        v.push((
            format!("nest:long-sum"),
            wrap(&(0..d * 8).map(|_| "x").collect::<Vec<_>>().join(" + ")),
        ));
    }
    v
}

const ALPHABET: [&str; 24] = ["x", "1", "0", ".", ",", "(", ")", "{", "}", "[", "]", "_", "\\", "$", "\"", "+", "-", "*", "/", "<", "=", ">", " ", "\n"];
const SLOTS: [(&str, &str); 5] = [
    ("slot:objective", "min {S}\ns.t.\n    x >= 0\ndefine\n    x as Real\n"),
    ("slot:constraint", "min x\ns.t.\n    {S} >= 0\ndefine\n    x as Real\n"),
    ("slot:constant", "min x\ns.t.\n    x >= 0\nwhere\n    let c = {S}\ndefine\n    x as Real\n"),
    ("slot:domain-argument", "min x\ns.t.\n    x >= 0\ndefine\n    x as Real({S}, 4)\n"),
    ("slot:index", "min x_{S}\ns.t.\n    x_1 >= 0\ndefine\n    x_i as Real for i in 0..2\n"),
];

fn small_scope_size(max_len: usize) -> u64 {
    let a = ALPHABET.len() as u64;
    let per: u64 = (1..=max_len as u32).map(|k| a.pow(k)).sum();
    per * SLOTS.len() as u64
}
fn small_scope_case(i: u64, max_len: usize) -> (String, String) {
    let a = ALPHABET.len() as u64;
    let per: u64 = (1..=max_len as u32).map(|k| a.pow(k)).sum();
    let (slot_name, template) = SLOTS[(i / per) as usize];
    let mut j = i % per;
    let mut len = 1u32;
    while j >= a.pow(len) {
        j -= a.pow(len);
        len += 1;
    }
    let mut s = String::new();
    for _ in 0..len {
        s.push_str(ALPHABET[(j % a) as usize]);
        j /= a;
    }
    (slot_name.to_string(), template.replace("{S}", &s))
}

const UNICODE: [&str; 7] = ["≤", "é", "🙂", "x\u{301}", "\u{200b}", "\u{feff}", "ß"];

pub fn run(mut run: Run) -> ! {
    crate::core::silence_panics();
    run.isolate = true;
    run.case_timeout_s = 8.0;
    run.worker_stack_mb = 8;
    run.worker_mem_limit_kb = Some(3 * 1024 * 1024);
    let quick = run.quick();
    run.rule = "deviation-bounded exhaustive exploration of the public pipeline (parse, format, latex, type check, token map, transform, linearize, renderings, standardise, tableau simplex, auto solver and the four other solver entry points, one-shot solver, every error renderer): level 0 = corpus of valid programs; level 1 = EVERY single token-level mutation of every corpus program (delete / duplicate / swap each token, 15 numeric extremes (incl. small just-out-of-range values) in every numeric slot, keyword/identifier substitutions, 18 insertions before every token, truncation at every character); level 2 = all pairs of level-1 delete/duplicate/numeric-extreme mutations within one line; nesting = 17 nesting constructs at every depth 1..64; typed holes = every (template x atom) program of the C19 engine (each kind of expression, incl. blocks over constants, in each syntactic position); small scope = all strings of length <= 4 (thorough: 5) over a 24-symbol alphabet in 5 syntactic slots; unicode = 7 multi-byte strings before every token of 3 programs; distinct = program texts; non-trivial = every text (each is a distinct input to the compiler)".into();
    run.assume("worker subprocesses with an 8 MiB stack (the default main-thread stack), a 3 GiB address-space limit and an 8 s per-case watchdog: stack overflow, allocation failure and non-termination are observed as abort/hang violations");
    run.assume("arbitrary byte noise beyond length 4 (thorough: 5) over the 24-symbol alphabet is not covered (only reachable by sampling, which is outside this technique)");
    // ----- level 0 / 1 / 2
    let programs: Arc<Vec<(String, String, Vec<Tk>, Vec<Mutation>)>> = Arc::new(
        CORPUS
            .iter()
            .map(|(n, s)| {
                let toks = lex(s);
                let muts = mutations(&toks, s.chars().count());
                (n.to_string(), s.to_string(), toks, muts)
            })
            .collect(),
    );
    {
        let p = programs.clone();
        run.family("L0-corpus", programs.len() as u64, move |i, l| {
            let (name, src, _, _) = &p[i as usize];
            let class = format!("corpus:{name}");
            if l.describe(&class, || json!({"source": src})) {
                return;
            }
            l.nontrivial(src);
            l.sample(|| json!({"source": src}));
            pipeline(src, &class, l);
        });
    }
    {
        let mut offsets = vec![0u64];
        for p in programs.iter() {
            offsets.push(offsets.last().unwrap() + p.3.len() as u64);
        }
        let total = *offsets.last().unwrap();
        let p = programs.clone();
        run.family("L1-single-mutations", total, move |i, l| {
            let pi = offsets.partition_point(|o| *o <= i) - 1;
            let (name, _, toks, muts) = &p[pi];
            let m = &muts[(i - offsets[pi]) as usize];
            let src = apply(toks, std::slice::from_ref(m));
            let class = format!("mutation:{}", m.class(toks));
            if l.describe(&class, || json!({"program": name, "mutation": format!("{:?}", m), "source": src})) {
                return;
            }
            l.nontrivial(&src);
            l.sample(|| json!({"program": name, "mutation": format!("{:?}", m), "source": src}));
            pipeline(&src, &class, l);
        });
    }
    {
        // pairs of (delete, duplicate, numeric extreme) mutations within one line
        let mut pairs: Vec<(usize, Mutation, Mutation)> = vec![];
        for (pi, (_, _, toks, muts)) in programs.iter().enumerate() {
            // line id of every token
            let mut line = 0;
            let line_of: Vec<usize> = toks
                .iter()
                .map(|t| {
                    let l0 = line;
                    if t.kind == TokKind::Nl {
                        line += 1;
                    }
                    l0
                })
                .collect();
            let light: Vec<&Mutation> = muts
                .iter()
                .filter(|m| match m {
                    Mutation::Delete(_) | Mutation::Duplicate(_) => true,
                    Mutation::Replace(i, s) => toks[*i].kind == TokKind::Number && (s.starts_with("9223") || s.starts_with("1844") || s == "0"),
                    _ => false,
                })
                .collect();
            for a in 0..light.len() {
                for b in a + 1..light.len() {
                    let (pa, pb) = (light[a].pos(), light[b].pos());
                    if pa != pb && line_of[pa] == line_of[pb] {
                        pairs.push((pi, light[a].clone(), light[b].clone()));
                    }
                }
            }
        }
        let pairs = Arc::new(pairs);
        let p = programs.clone();
        let pr = pairs.clone();
        run.family("L2-mutation-pairs-within-line", pairs.len() as u64, move |i, l| {
            let (pi, a, b) = &pr[i as usize];
            let (name, _, toks, _) = &p[*pi];
            let src = apply(toks, &[a.clone(), b.clone()]);
            let class = format!("mutation-pair:{}+{}", a.class(toks), b.class(toks));
            if l.describe(&class, || json!({"program": name, "mutations": format!("{:?} {:?}", a, b), "source": src})) {
                return;
            }
            l.nontrivial(&src);
            pipeline(&src, &class, l);
        });
    }
    // ----- nesting
    let nests = Arc::new(nesting_cases());
    {
        let n = nests.clone();
        run.family("N-nesting-depth-1-to-64", nests.len() as u64, move |i, l| {
            let (class, src) = &n[i as usize];
            let depth = i as usize / 17 + 1;
            if l.describe(class, || json!({"depth": depth, "source": src})) {
                return;
            }
            l.nontrivial(src);
            l.sample(|| json!({"class": class, "depth": depth, "source": src}));
            pipeline(src, class, l);
        });
    }
    // ----- small scope
    let max_len = if quick { 4 } else { 5 };
    {
        // every typed-hole program of the C19 engine (each expression kind in each syntactic position)
        let progs = Arc::new(crate::props::c19::programs_for_totality());
        let p2 = progs.clone();
        run.family("H-typed-holes", progs.len() as u64, move |i, l| {
            let (class, src) = &p2[i as usize];
            pipeline(src, class, l);
        });
    }
    run.family(&format!("S-all-strings-len<={max_len}"), small_scope_size(max_len), move |i, l| {
        let (class, src) = small_scope_case(i, max_len);
        if l.describe(&class, || json!({"source": src})) {
            return;
        }
        l.nontrivial(&src);
        l.sample(|| json!({"class": class, "source": src}));
        pipeline(&src, &class, l);
    });
    // ----- unicode
    {
        let p = programs.clone();
        let chosen: Vec<usize> = vec![0, 4, 10];
        let mut cases: Vec<(usize, usize, usize)> = vec![];
        for &pi in &chosen {
            for ti in 0..p[pi].2.len() {
                for u in 0..UNICODE.len() {
                    cases.push((pi, ti, u));
                }
            }
        }
        let cases = Arc::new(cases);
        let c2 = cases.clone();
        run.family("U-unicode-insertions", cases.len() as u64, move |i, l| {
            let (pi, ti, u) = c2[i as usize];
            let (name, _, toks, _) = &p[pi];
            let src = apply(toks, &[Mutation::InsertBefore(ti, UNICODE[u].to_string())]);
            let class = format!("unicode:{}", UNICODE[u].escape_unicode());
            if l.describe(&class, || json!({"program": name, "source": src})) {
                return;
            }
            l.nontrivial(&src);
            pipeline(&src, &class, l);
        });
    }
    run.require("stage:parse:ok");
    run.require("stage:parse:err");
    run.require("stage:transform:err");
    run.require("stage:linearize:ok");
    run.require("stage:solve:ok");
    run.finish()
}
