//! C10 — algebraic rewrites (simplify / flatten) and constant spelling preserve meaning.
use crate::core::{Digits, Local, Run};
use crate::exact::{Q, q, qr};
use crate::props::c12::lm_diff;
use crate::refsem::{Env, eval};
use indexmap::IndexMap;
use rooc::model_transformer::Exp;
use rooc::{BinOp, Constant, Linearizer, Primitive, RoocParser, UnOp};
use serde_json::json;
use std::sync::Arc;

fn leaves(full: bool) -> Vec<Exp> {
    let mut v = vec![Exp::Number(0.0), Exp::Number(1.0), Exp::Number(2.0), Exp::Variable("x".into()), Exp::Variable("b".into())];
    if full {
        v.extend([Exp::Number(-0.0), Exp::Number(-1.0), Exp::Number(0.5), Exp::Variable("y".into())]);
    }
    v
}

const BINOPS: [BinOp; 9] = [BinOp::Add, BinOp::Sub, BinOp::Mul, BinOp::Div, BinOp::And, BinOp::Or, BinOp::Xor, BinOp::Implies, BinOp::Iff];

/// all trees with exactly `n` operator nodes (ternary n-ary forms only over leaves, n == 1)
fn trees(n: usize, full: bool, memo: &mut Vec<Arc<Vec<Exp>>>) -> Arc<Vec<Exp>> {
    if let Some(v) = memo.get(n) {
        return v.clone();
    }
    assert_eq!(memo.len(), n);
    let mut out: Vec<Exp> = vec![];
    if n == 0 {
        out = leaves(full);
    } else {
        let sub = memo[n - 1].clone();
        for e in sub.iter() {
            out.push(Exp::Abs(e.clone().to_box()));
            out.push(Exp::Not(e.clone().to_box()));
            out.push(Exp::UnOp(UnOp::Neg, e.clone().to_box()));
            out.push(Exp::UnOp(UnOp::Not, e.clone().to_box()));
            out.push(Exp::And(vec![e.clone()]));
            out.push(Exp::Or(vec![e.clone()]));
            out.push(Exp::Min(vec![e.clone()]));
            out.push(Exp::Max(vec![e.clone()]));
        }
        for ls in 0..n {
            let rs = n - 1 - ls;
            let (l, r) = (memo[ls].clone(), memo[rs].clone());
            for a in l.iter() {
                for b in r.iter() {
                    for op in BINOPS {
                        out.push(Exp::BinOp(op, a.clone().to_box(), b.clone().to_box()));
                    }
                    out.push(Exp::Xor(a.clone().to_box(), b.clone().to_box()));
                    out.push(Exp::Implies(a.clone().to_box(), b.clone().to_box()));
                    out.push(Exp::Iff(a.clone().to_box(), b.clone().to_box()));
                    out.push(Exp::And(vec![a.clone(), b.clone()]));
                    out.push(Exp::Or(vec![a.clone(), b.clone()]));
                    out.push(Exp::Min(vec![a.clone(), b.clone()]));
                    out.push(Exp::Max(vec![a.clone(), b.clone()]));
                }
            }
        }
        if n == 1 {
            out.push(Exp::And(vec![]));
            out.push(Exp::Or(vec![]));
            out.push(Exp::Min(vec![]));
            out.push(Exp::Max(vec![]));
            let l = memo[0].clone();
            for a in l.iter() {
                for b in l.iter() {
                    for c in l.iter() {
                        out.push(Exp::And(vec![a.clone(), b.clone(), c.clone()]));
                        out.push(Exp::Or(vec![a.clone(), b.clone(), c.clone()]));
                        out.push(Exp::Min(vec![a.clone(), b.clone(), c.clone()]));
                        out.push(Exp::Max(vec![a.clone(), b.clone(), c.clone()]));
                    }
                }
            }
        }
    }
    let v = Arc::new(out);
    memo.push(v.clone());
    v
}

fn contains_var(e: &Exp) -> bool {
    match e {
        Exp::Number(_) => false,
        Exp::Variable(_) => true,
        Exp::Abs(i) | Exp::Not(i) | Exp::UnOp(_, i) => contains_var(i),
        Exp::Min(v) | Exp::Max(v) | Exp::And(v) | Exp::Or(v) => v.iter().any(contains_var),
        Exp::Xor(l, r) | Exp::Implies(l, r) | Exp::Iff(l, r) | Exp::BinOp(_, l, r) => contains_var(l) || contains_var(r),
    }
}

/// does the tree contain a division the linearizer must diagnose: a denominator that is zero or
/// undefined at some assignment, or that is not constant over the assignments?
fn has_bad_division(e: &Exp, envs: &[Env]) -> bool {
    match e {
        Exp::Number(_) | Exp::Variable(_) => false,
        Exp::Abs(i) | Exp::Not(i) | Exp::UnOp(_, i) => has_bad_division(i, envs),
        Exp::Min(v) | Exp::Max(v) | Exp::And(v) | Exp::Or(v) => v.iter().any(|x| has_bad_division(x, envs)),
        Exp::Xor(l, r) | Exp::Implies(l, r) | Exp::Iff(l, r) => has_bad_division(l, envs) || has_bad_division(r, envs),
        Exp::BinOp(op, l, r) => {
            if has_bad_division(l, envs) || has_bad_division(r, envs) {
                return true;
            }
            if *op == BinOp::Div {
                let mut first: Option<Q> = None;
                for a in envs {
                    match eval(r, a) {
                        // a denominator that is itself a division by zero is covered by the recursion above;
                        // other undefinedness (empty min/max) is not a division defect
                        Err(_) => continue,
                        Ok(v) => {
                            if v == q(0) {
                                return true;
                            }
                            match &first {
                                None => first = Some(v),
                                Some(f) => {
                                    if *f != v {
                                        return true;
                                    }
                                }
                            }
                        }
                    }
                }
            }
            false
        }
    }
}

/// The language only gives a meaning to logic operators over 0/1 values: constants may be any number
/// (truthy iff non-zero), everything else must evaluate to 0 or 1. False = the tree is ill-typed at `env`.
fn logic_operands_are_binary(e: &Exp, env: &Env) -> bool {
    let ok_operand = |x: &Exp| -> bool {
        if !contains_var(x) {
            return true;
        }
        match eval(x, env) {
            Ok(v) => v == q(0) || v == q(1),
            Err(_) => true,
        }
    };
    match e {
        Exp::Number(_) | Exp::Variable(_) => true,
        Exp::Abs(i) => logic_operands_are_binary(i, env),
        Exp::Min(v) | Exp::Max(v) => v.iter().all(|x| logic_operands_are_binary(x, env)),
        Exp::And(v) | Exp::Or(v) => v.iter().all(|x| ok_operand(x) && logic_operands_are_binary(x, env)),
        Exp::Not(i) => ok_operand(i) && logic_operands_are_binary(i, env),
        Exp::Xor(l, r) | Exp::Implies(l, r) | Exp::Iff(l, r) => ok_operand(l) && ok_operand(r) && logic_operands_are_binary(l, env) && logic_operands_are_binary(r, env),
        Exp::BinOp(op, l, r) => {
            let logic = matches!(op, BinOp::And | BinOp::Or | BinOp::Xor | BinOp::Implies | BinOp::Iff);
            (!logic || (ok_operand(l) && ok_operand(r))) && logic_operands_are_binary(l, env) && logic_operands_are_binary(r, env)
        }
        Exp::UnOp(op, i) => (*op != UnOp::Not || ok_operand(i)) && logic_operands_are_binary(i, env),
    }
}

fn root_kind(e: &Exp) -> String {
    match e {
        Exp::Number(_) => "Number".into(),
        Exp::Variable(_) => "Variable".into(),
        Exp::Abs(_) => "Abs".into(),
        Exp::Min(v) => format!("Min{}", v.len()),
        Exp::Max(v) => format!("Max{}", v.len()),
        Exp::And(v) => format!("And{}", v.len()),
        Exp::Or(v) => format!("Or{}", v.len()),
        Exp::Not(_) => "Not".into(),
        Exp::Xor(_, _) => "Xor".into(),
        Exp::Implies(_, _) => "Implies".into(),
        Exp::Iff(_, _) => "Iff".into(),
        Exp::BinOp(op, _, _) => format!("BinOp{:?}", op),
        Exp::UnOp(op, _) => format!("UnOp{:?}", op),
    }
}

/// all logic-only trees with exactly `n` operator nodes (not, and, or, xor, implies, iff) over {b, x, 0, 1, 2}
fn logic_trees(n: usize, memo: &mut Vec<Arc<Vec<Exp>>>) -> Arc<Vec<Exp>> {
    if let Some(v) = memo.get(n) {
        return v.clone();
    }
    assert_eq!(memo.len(), n);
    let mut out: Vec<Exp> = vec![];
    if n == 0 {
        out = vec![Exp::Variable("b".into()), Exp::Variable("x".into()), Exp::Number(0.0), Exp::Number(1.0), Exp::Number(2.0)];
    } else {
        for e in memo[n - 1].iter() {
            out.push(Exp::Not(e.clone().to_box()));
        }
        for ls in 0..n {
            let rs = n - 1 - ls;
            let (l, r) = (memo[ls].clone(), memo[rs].clone());
            for a in l.iter() {
                for b in r.iter() {
                    out.push(Exp::Xor(a.clone().to_box(), b.clone().to_box()));
                    out.push(Exp::Implies(a.clone().to_box(), b.clone().to_box()));
                    out.push(Exp::Iff(a.clone().to_box(), b.clone().to_box()));
                    out.push(Exp::And(vec![a.clone(), b.clone()]));
                    out.push(Exp::Or(vec![a.clone(), b.clone()]));
                }
            }
        }
    }
    let v = Arc::new(out);
    memo.push(v.clone());
    v
}

fn assignments() -> Vec<Env> {
    let vals = [q(-2), q(-1), q(0), qr(1, 2), q(1), q(2)];
    let mut out = vec![];
    for x in &vals {
        for y in &vals {
            for b in [q(0), q(1)] {
                let mut e = Env::new();
                e.insert("x".into(), x.clone());
                e.insert("y".into(), y.clone());
                e.insert("b".into(), b);
                out.push(e);
            }
        }
    }
    out
}

fn check_tree(t: &Exp, envs: &[Env], l: &mut Local) {
    let rewrites: [(&str, Box<dyn Fn(&Exp) -> Exp>); 4] = [
        ("simplify", Box::new(|e: &Exp| e.simplify())),
        ("flatten", Box::new(|e: &Exp| e.clone().flatten())),
        ("flatten.simplify", Box::new(|e: &Exp| e.clone().flatten().simplify())),
        ("simplify.flatten", Box::new(|e: &Exp| e.simplify().flatten())),
    ];
    // assignments at which a non-constant logic operand is not 0/1 are outside the language
    let envs: Vec<Env> = envs.iter().filter(|a| logic_operands_are_binary(t, a)).cloned().collect();
    let envs = &envs[..];
    if envs.is_empty() {
        l.count("trees_ill_typed_everywhere(skipped)");
        return;
    }
    let orig: Vec<Result<Q, crate::refsem::Undef>> = envs.iter().map(|a| eval(t, a)).collect();
    if orig.iter().any(|v| v.is_ok()) {
        l.nontrivial(&format!("{:?}", t));
    }
    let bad = has_bad_division(t, envs);
    if bad {
        l.count("trees_with_undiagnosable_division");
    }
    l.sample(|| json!({"tree": format!("{}", t), "debug": format!("{:?}", t), "simplified": format!("{}", t.simplify())}));
    for (name, f) in rewrites.iter() {
        let r = match crate::core::catch(|| f(t)) {
            Ok(r) => r,
            Err(p) => {
                l.violation(format!("{name}:panic"), format!("{name} panicked: {p}"), json!({"tree": format!("{:?}", t)}));
                continue;
            }
        };
        l.count("rewrites_checked");
        let case = |what: String| json!({"tree": format!("{}", t), "tree_debug": format!("{:?}", t), "rewrite": name, "rewritten": format!("{}", r), "rewritten_debug": format!("{:?}", r), "what": what});
        for (a, o) in envs.iter().zip(&orig) {
            match (o, eval(&r, a)) {
                (Ok(v), Ok(w)) => {
                    // rooc folds constants in f64: allow the rounding of non-dyadic results
                    let (fv, fw) = (crate::exact::to_f64(v), crate::exact::to_f64(&w));
                    if *v != w && (fv - fw).abs() > 1e-12 * fv.abs().max(1.0) {
                        l.violation(format!("{name}:value-changed:{}", root_kind(t)), format!("value {} became {} at {:?}", v, w, a), case(format!("{:?}", a)));
                        break;
                    }
                }
                (Ok(v), Err(u)) => {
                    l.violation(format!("{name}:defined-became-undefined:{}", root_kind(t)), format!("value {} became undefined ({:?}) at {:?}", v, u, a), case(format!("{:?}", a)));
                    break;
                }
                (Err(crate::refsem::Undef::DivisionByZero), Ok(w)) => {
                    // only a violation if no diagnosable division survives (checked below on the syntax);
                    // here: a division by zero was computed through
                    if !has_bad_division(&r, envs) {
                        l.violation(format!("{name}:division-by-zero-rewritten-away:{}", root_kind(t)), format!("undefined (division by zero) became {} at {:?}", w, a), case(format!("{:?}", a)));
                        break;
                    }
                }
                _ => {}
            }
        }
        if bad && !has_bad_division(&r, envs) {
            l.violation(format!("{name}:undiagnosable-division-erased:{}", root_kind(t)), "a division by zero or by a non-constant no longer occurs in the rewritten expression", case("syntax".into()));
        }
        if *name == "simplify" {
            let twice = r.simplify();
            if format!("{:?}", twice) != format!("{:?}", r) {
                l.violation(format!("simplify:not-idempotent:{}", root_kind(t)), format!("simplify(simplify(t)) = {:?} differs from simplify(t) = {:?}", twice, r), case("idempotence".into()));
            }
        }
    }
}

// ---------------- part B: constant spellings ----------------

const TEMPLATES: [(&str, &str); 11] = [
    ("objective-coefficient", "min {C}\ns.t.\n    x >= -1\n    x <= 2\ndefine\n    x as Real\n"),
    ("row-coefficient", "max x\ns.t.\n    {C} <= 4\n    {C} >= -6\ndefine\n    x as Real\n"),
    ("bound-feeds-exact-abs", "min y\ns.t.\n    {C} <= 4\n    {C} >= -6\n    abs{ x } = y\ndefine\n    x as Real\n    y as Real(0, 100)\n"),
    ("bound-feeds-max-objective", "max max{ x, 1 }\ns.t.\n    {C} <= 4\n    {C} >= -6\ndefine\n    x as Real\n"),
    ("bound-feeds-min-in-row", "min x\ns.t.\n    {C} <= 4\n    {C} >= -6\n    min{ x, 1 } >= -2\ndefine\n    x as Real\n"),
    ("integer-bound", "max x\ns.t.\n    {C} <= 5\ndefine\n    x as IntegerRange(-10, 10)\n"),
    ("abs-of-scaled", "min abs{ {C} + 1 }\ns.t.\n    x >= -3\n    x <= 3\ndefine\n    x as Real\n"),
    ("block-side-is-the-only-bound", "max max{ x, 1 }\ns.t.\n    abs{ {C} } <= 8\ndefine\n    x as Real\n"),
    // the coefficient multiplies a block: {C} is spelled over the operand named after the '@'
    ("block-objective-max@max{ x, 1 }", "min {C} + 3 * x\ns.t.\n    x >= -3\n    x <= 3\ndefine\n    x as Real\n"),
    ("block-objective-abs@abs{ x }", "max {C} + x\ns.t.\n    x >= -3\n    x <= 2\ndefine\n    x as Real\n"),
    ("block-row-min@min{ x, 2 }", "max x\ns.t.\n    {C} <= 4\n    {C} >= -3\n    x >= -5\n    x <= 5\ndefine\n    x as Real\n"),
];
const KS: [f64; 6] = [2.0, -2.0, 0.5, -1.0, 4.0, -0.25];

fn spellings(k: f64, operand: &str) -> Vec<(&'static str, String, Option<(String, f64)>)> {
    // (name, text of k*x, optional API constant); `operand` replaces x (a block for the block templates)
    let ks = format!("{}", k.abs());
    let neg = k < 0.0;
    let lit = if neg { format!("-{ks}") } else { ks.clone() };
    let mut v = vec![
        ("k*x", format!("{lit} * x"), None),
        ("x*k", format!("x * {lit}"), None),
        ("kx", format!("{lit}x"), None),
        ("(k)x", format!("({lit})x"), None),
        ("(0-k')*x", format!("(0 - {}) * x", if neg { ks.clone() } else { format!("(0 - {ks})") }), None),
        ("(k1+k2)*x", format!("({} + {}) * x", k / 2.0, k / 2.0), None),
        ("x/(1/k)", format!("x / {}", 1.0 / k), None),
        ("x/(1/k)-expr", format!("x / (1 / {})", if neg { format!("(0 - {ks})") } else { ks.clone() }), None),
        ("where-constant", "K * x".to_string(), None),
        ("api-constant", "K * x".to_string(), Some(("K".to_string(), k))),
        ("where-constant-right", "x * K".to_string(), None),
        ("api-constant-right", "x * K".to_string(), Some(("K".to_string(), k))),
        ("k*(x)", format!("{lit} * (x)"), None),
        ("-(k'*x)", if neg { format!("-({ks} * x)") } else { format!("-((0 - {ks}) * x)") }, None),
        // a unary minus over a sum with a constant term that cancels outside
        ("-(k'*x-1)-1", if neg { format!("-({ks} * x - 1) - 1") } else { format!("-((0 - {ks}) * x - 1) - 1") }, None),
    ];
    // x / negative literal needs parentheses-free literal: "x / -0.5" is valid (unary on the leaf)
    v.retain(|s| !s.1.contains("--"));
    if operand != "x" {
        // implicit multiplication is only defined before a variable or a parenthesis
        v.retain(|s| s.0 != "kx" && s.0 != "(k)x");
        for s in v.iter_mut() {
            // the operand is the only x of every spelling
            s.1 = s.1.replace('x', operand);
        }
    }
    v
}

fn compile(src: &str, consts: Vec<Constant>) -> Result<rooc::LinearModel, String> {
    let p = RoocParser::new(src.to_string());
    let m = p.parse_and_transform(consts, &IndexMap::new()).map_err(|e| format!("transform: {}", e.lines().next().unwrap_or("")))?;
    Linearizer::linearize(m).map_err(|e| {
        let s = e.to_string();
        let kind = s.split(|c| c == ':' || c == '"').next().unwrap_or("").trim().to_string();
        format!("linearize: {kind}")
    })
}

fn part_b_case(i: u64, l: &mut Local) {
    let mut d = Digits(i);
    let (tname, template) = *d.of(&TEMPLATES);
    let k = *d.of(&KS);
    let operand = tname.split('@').nth(1).unwrap_or("x");
    let sp = spellings(k, operand);
    let mut results = vec![];
    for (sname, text, api) in &sp {
        let mut src = template.replace("{C}", text);
        let mut consts = vec![];
        if sname.starts_with("where-constant") {
            let lit = if k < 0.0 { format!("0 - {}", k.abs()) } else { format!("{k}") };
            src = src.replace("\ndefine\n", &format!("\nwhere\n    let K = {lit}\ndefine\n"));
        }
        if let Some((n, v)) = api {
            consts.push(Constant::from_primitive(n, Primitive::Number(*v)));
        }
        let r = crate::core::catch(|| compile(&src, consts)).unwrap_or_else(|p| Err(format!("panic: {p}")));
        l.count("twin_compilations");
        results.push((*sname, src, r));
    }
    l.sample(|| json!({"template": tname, "k": k, "spellings": results.iter().map(|r| (r.0, r.1.clone(), r.2.is_ok())).collect::<Vec<_>>()}));
    // reference twin: the plain k*x spelling
    let (ref_name, ref_src, ref_res) = results[0].clone();
    if ref_res.is_ok() {
        l.nontrivial(&ref_src);
    }
    for (sname, src, res) in results.iter().skip(1) {
        let case = |what: &str| json!({"template": tname, "k": k, "reference_spelling": ref_name, "reference_source": ref_src, "reference_result": ref_res.as_ref().map(|m| m.to_string()).map_err(|e| e.clone()), "spelling": sname, "source": src, "result": res.as_ref().map(|m| m.to_string()).map_err(|e| e.clone()), "what": what});
        match (&ref_res, res) {
            (Ok(a), Ok(b)) => {
                if let Some(dv) = lm_diff(a, b) {
                    // different rows are acceptable only if the models are exactly equivalent on the declared variables
                    let (sa, sb) = (crate::lm::LmSpec::from_rooc(a).unwrap(), crate::lm::LmSpec::from_rooc(b).unwrap());
                    if !crate::props::c12::equivalent_exact_declared(&sa, &sb) {
                        l.violation(format!("spelling:{sname}:different-model:{tname}"), dv.clone(), case(&dv));
                    } else {
                        l.count("twins-equivalent-not-identical");
                    }
                } else {
                    l.count("twins-identical");
                }
            }
            (Err(a), Err(b)) => {
                if a != b {
                    l.violation(format!("spelling:{sname}:different-error:{tname}"), format!("`{ref_name}` fails with {a}, `{sname}` with {b}"), case("errors differ"));
                } else {
                    l.count("twins-both-rejected");
                }
            }
            (Ok(_), Err(e)) => l.violation(format!("spelling:{sname}:only-this-spelling-rejected:{tname}"), format!("`{ref_name}` compiles but `{sname}` is rejected: {e}"), case(e)),
            (Err(e), Ok(_)) => l.violation(format!("spelling:{sname}:only-reference-rejected:{tname}"), format!("`{sname}` compiles but `{ref_name}` is rejected: {e}"), case(e)),
        }
    }
}

/// family A-guarded: ABSORB(WRAP^k(DIV)), k = 0..2. DIV is a division that cannot be diagnosed away, WRAP a
/// context that keeps it alive (constant factor or divisor, sign, block, sum), ABSORB a context whose value does
/// not depend on the operand (zero factor, absorbing logic constant): the division must survive every rewrite
fn guarded_division_trees() -> Vec<Exp> {
    let x = || Exp::Variable("x".into());
    let y = || Exp::Variable("y".into());
    let n = |v: f64| Exp::Number(v);
    let bin = |op: BinOp, a: Exp, b: Exp| Exp::BinOp(op, Box::new(a), Box::new(b));
    let divs: Vec<Exp> = vec![
        bin(BinOp::Div, x(), n(0.0)),
        bin(BinOp::Div, n(1.0), x()),
        bin(BinOp::Div, x(), y()),
        bin(BinOp::Div, n(2.0), bin(BinOp::Sub, x(), x())),
        bin(BinOp::Div, n(0.0), n(0.0)),
    ];
    let wraps: Vec<Box<dyn Fn(Exp) -> Exp>> = vec![
        Box::new(move |e| Exp::BinOp(BinOp::Div, Box::new(e), Box::new(Exp::Number(2.0)))),
        Box::new(move |e| Exp::BinOp(BinOp::Mul, Box::new(e), Box::new(Exp::Number(0.5)))),
        Box::new(move |e| Exp::BinOp(BinOp::Mul, Box::new(Exp::Number(2.0)), Box::new(e))),
        Box::new(move |e| Exp::BinOp(BinOp::Add, Box::new(e), Box::new(Exp::Number(1.0)))),
        Box::new(move |e| Exp::BinOp(BinOp::Sub, Box::new(Exp::Number(1.0)), Box::new(e))),
        Box::new(move |e| Exp::UnOp(rooc::UnOp::Neg, Box::new(e))),
        Box::new(move |e| Exp::Abs(Box::new(e))),
        Box::new(move |e| Exp::Min(vec![e, Exp::Number(1.0)])),
        Box::new(move |e| Exp::Max(vec![Exp::Number(1.0), e])),
        Box::new(move |e| Exp::BinOp(BinOp::Div, Box::new(Exp::BinOp(BinOp::Add, Box::new(e), Box::new(Exp::Number(1.0)))), Box::new(Exp::Number(2.0)))),
    ];
    let absorbs: Vec<Box<dyn Fn(Exp) -> Exp>> = vec![
        Box::new(move |e| Exp::BinOp(BinOp::Mul, Box::new(Exp::Number(0.0)), Box::new(e))),
        Box::new(move |e| Exp::BinOp(BinOp::Mul, Box::new(e), Box::new(Exp::Number(0.0)))),
        Box::new(move |e| Exp::BinOp(BinOp::Div, Box::new(Exp::Number(0.0)), Box::new(e))),
        Box::new(move |e| Exp::Or(vec![Exp::Number(1.0), e])),
        Box::new(move |e| Exp::Or(vec![e, Exp::Number(1.0)])),
        Box::new(move |e| Exp::And(vec![Exp::Number(0.0), e])),
        Box::new(move |e| Exp::And(vec![e, Exp::Number(0.0)])),
        Box::new(move |e| Exp::Implies(Box::new(Exp::Number(0.0)), Box::new(e))),
        Box::new(move |e| Exp::Implies(Box::new(e), Box::new(Exp::Number(1.0)))),
        Box::new(move |e| Exp::BinOp(BinOp::Sub, Box::new(e.clone()), Box::new(e))),
        Box::new(move |e| e),
    ];
    let mut out = vec![];
    for d in &divs {
        let mut level: Vec<Exp> = vec![d.clone()];
        let mut all: Vec<Exp> = level.clone();
        for _ in 0..2 {
            let mut next = vec![];
            for e in &level {
                for w in &wraps {
                    next.push(w(e.clone()));
                }
            }
            all.extend(next.iter().cloned());
            level = next;
        }
        for e in all {
            for a in &absorbs {
                out.push(a(e.clone()));
            }
        }
    }
    out
}

pub fn run(mut run: Run) -> ! {
    crate::core::silence_panics();
    let quick = run.quick();
    run.rule = "part A: every Exp tree with <= 2 operator nodes over the full leaf alphabet {0,1,-0,2,-1,0.5,x,y,b} and every logic-only tree (not, and, or, xor, implies, iff over b, x, 0, 1, 2) with 3 operator nodes (thorough adds every tree with 3 operator nodes over a reduced alphabet) over every constructor (BinOp x9, UnOp x2, Abs, Not, Xor, Implies, Iff, n-ary And/Or/Min/Max with 0-3 operands) plus 6105 guarded divisions (an undiagnosable division under up to two value-preserving wrappers under a context that absorbs its operand) is rewritten with simplify, flatten and both compositions and evaluated at 72 assignments by an exact reference evaluator; part B: 11 model templates (the coefficient multiplies a variable, or a max / abs / min block in the objective or in rows) x 6 constants x 15 spellings of the coefficient (incl. named and API-supplied constants on either side) are compiled and compared; distinct = tree debug text / reference twin source; non-trivial = defined at some assignment / compiles".into();
    run.assume("reference semantics: strict exact evaluation, truthy iff non-zero, division by zero undefined; a division is 'diagnosable' when its denominator contains a variable or is a constant zero");
    run.assume("twin models compared row for row, else by exact equivalence (same optimum/status for the objective and for +-e_i on every declared variable; auxiliaries may differ in number and naming)");
    let envs = Arc::new(assignments());
    let mut memo: Vec<Arc<Vec<Exp>>> = vec![];
    let full = true;
    let max_n = 2;
    for n in 0..=max_n {
        let ts = trees(n, full, &mut memo);
        let e2 = envs.clone();
        let ts2 = ts.clone();
        run.family(&format!("A-trees-size{n}{}", if full { "-full" } else { "" }), ts.len() as u64, move |i, l| {
            check_tree(&ts2[i as usize], &e2, l);
        });
    }
    {
        // logic-only trees with 3 operator nodes (negated operands of implies / iff / xor, nested negations)
        let mut memo_l: Vec<Arc<Vec<Exp>>> = vec![];
        for n in 0..=2 {
            logic_trees(n, &mut memo_l);
        }
        let ts = logic_trees(3, &mut memo_l);
        let e2 = envs.clone();
        let ts2 = ts.clone();
        run.family("A-logic-trees-size3", ts.len() as u64, move |i, l| {
            check_tree(&ts2[i as usize], &e2, l);
        });
    }
    {
        let ts = Arc::new(guarded_division_trees());
        let e2 = envs.clone();
        let ts2 = ts.clone();
        run.family("A-guarded-divisions", ts.len() as u64, move |i, l| {
            check_tree(&ts2[i as usize], &e2, l);
        });
    }
    if !quick {
        // size 3 over the reduced alphabet
        let mut memo_r: Vec<Arc<Vec<Exp>>> = vec![];
        for n in 0..=2 {
            trees(n, false, &mut memo_r);
        }
        let ts = trees(3, false, &mut memo_r);
        let e2 = envs.clone();
        let ts2 = ts.clone();
        run.family("A-trees-size3-reduced", ts.len() as u64, move |i, l| {
            check_tree(&ts2[i as usize], &e2, l);
        });
    }
    run.family("B-constant-spellings", (TEMPLATES.len() * KS.len()) as u64, part_b_case);
    run.require("rewrites_checked");
    run.require("trees_with_undiagnosable_division");
    run.require("twin_compilations");
    run.finish()
}
