//! C15 — limits and tolerances never turn into wrong answers.
//! Fault enumeration over the wall clock: built only in the vclock workspace, where the clock
//! microlp reads is virtual (each read = +1 ns). A time limit of k ns expires exactly at the
//! k-th clock read, so every expiry point 0..N+1 of a search is enumerated.
use crate::core::{Local, Run};
use crate::exact::{LpResult, Rel, to_f64};
use crate::lm::{Dom, LmSpec, Row, Sense};
use crate::props::c04_c05::{certificate, oracle};
use crate::solve::{SolverKind, classify_err, conv_milp};
use rooc::{MilpOptions, SolutionStatus};
use serde_json::json;
use std::time::Duration;

fn row(c: &[f64], rel: Rel, rhs: f64, name: &str) -> Row {
    Row { coef: c.to_vec(), rel, rhs, name: name.to_string() }
}
fn bools(n: usize) -> Vec<(String, Dom)> {
    (0..n).map(|i| (format!("b{}", i + 1), Dom::Bool)).collect()
}

pub fn menu(quick: bool) -> Vec<(String, LmSpec)> {
    let w = [2.0, 3.0, 4.0, 5.0, 6.0, 7.0, 3.0];
    let v = [3.0, 4.0, 5.0, 6.0, 7.0, 8.0, 5.0];
    let mut out = vec![];
    let nmax = if quick { 5 } else { 7 };
    for n in 3..=nmax {
        let tot: f64 = w[..n].iter().sum();
        for cap in [(tot / 2.0).floor(), (tot / 2.0).floor() + 0.5, tot - 1.0] {
            out.push((
                format!("knapsack-n{n}-cap{cap}"),
                LmSpec { vars: bools(n), rows: vec![row(&w[..n], Rel::Le, cap, "cap")], obj: v[..n].to_vec(), offset: 0.0, sense: Sense::Max },
            ));
        }
        // covering
        let mut r1 = vec![0.0; n];
        let mut r2 = vec![0.0; n];
        let mut r3 = vec![0.0; n];
        for i in 0..n {
            if i % 2 == 0 {
                r1[i] = 1.0;
            }
            if i % 3 != 0 {
                r2[i] = 1.0;
            }
            if i >= n / 2 {
                r3[i] = 1.0;
            }
        }
        out.push((
            format!("cover-n{n}"),
            LmSpec {
                vars: bools(n),
                rows: vec![row(&r1, Rel::Ge, 1.0, "c1"), row(&r2, Rel::Ge, 2.0, "c2"), row(&r3, Rel::Ge, 1.0, "c3")],
                obj: w[..n].to_vec(),
                offset: 1.5,
                sense: Sense::Min,
            },
        ));
        // infeasible knapsack
        out.push((
            format!("infeasible-n{n}"),
            LmSpec {
                vars: bools(n),
                rows: vec![row(&w[..n], Rel::Le, 4.0, "cap"), row(&vec![1.0; n], Rel::Ge, 3.0, "atleast3")],
                obj: v[..n].to_vec(),
                offset: 0.0,
                sense: Sense::Max,
            },
        ));
        // mixed integer with a continuous variable
        let mut vars = bools(n);
        vars.push(("y".into(), Dom::NonNegB(0.0, 2.5)));
        let mut wc = w[..n].to_vec();
        wc.push(1.0);
        let mut vc = v[..n].to_vec();
        vc.push(1.25);
        out.push((
            format!("mixed-n{n}"),
            LmSpec { vars, rows: vec![row(&wc, Rel::Le, (tot / 2.0).floor() + 0.5, "cap")], obj: vc, offset: 0.0, sense: Sense::Max },
        ));
    }
    // general integers
    out.push((
        "int-2d".into(),
        LmSpec {
            vars: vec![("i".into(), Dom::Int(0, 5)), ("j".into(), Dom::Int(-2, 4))],
            rows: vec![row(&[2.0, 3.0], Rel::Le, 11.5, "r1"), row(&[4.0, -1.0], Rel::Le, 9.5, "r2")],
            obj: vec![3.0, 2.0],
            offset: 0.0,
            sense: Sense::Max,
        },
    ));
    out.push((
        "int-eq".into(),
        LmSpec {
            vars: vec![("i".into(), Dom::Int(0, 6)), ("j".into(), Dom::Int(0, 6)), ("k".into(), Dom::Int(0, 6))],
            rows: vec![row(&[3.0, 5.0, 7.0], Rel::Eq, 23.0, "e")],
            obj: vec![1.0, 1.0, 1.0],
            offset: 0.0,
            sense: Sense::Min,
        },
    ));
    // an integer column whose range lies away from zero, next to knapsacks whose first incumbent is not optimal
    for (lo, hi) in [(100, 101), (-101, -100), (7, 9)] {
        for n in [4usize, 6] {
            let mut vars = bools(n);
            vars.push(("k".into(), Dom::Int(lo, hi)));
            let mut wc = w[..n].to_vec();
            wc.push(0.0);
            let mut vc = v[..n].to_vec();
            vc.push(1.0);
            let tot: f64 = w[..n].iter().sum();
            out.push((format!("knapsack-n{n}-plus-int({lo},{hi})"), LmSpec { vars, rows: vec![row(&wc, Rel::Le, (tot / 2.0).floor(), "cap")], obj: vc, offset: 0.0, sense: Sense::Max }));
        }
    }
    // near ties at a large objective scale: values proportional to the weights plus a small bonus, so that many
    // packings lie within 1e-4 (relative) of the optimum; only a search run with gap 0 is entitled to the label Optimal
    {
        let wt = [12.0, 7.0, 11.0, 8.0, 9.0, 6.0];
        for (scale, caps) in [(10000.0, vec![20.0, 26.0, 30.0]), (1e6, vec![26.0])] {
            for cap in caps {
                for n in [5usize, 6] {
                    if quick && (n == 5 || cap == 20.0) {
                        continue;
                    }
                    let vals: Vec<f64> = (0..n).map(|i| scale * wt[i] + (5 - i) as f64).collect();
                    out.push((format!("near-tie-knapsack-n{n}-cap{cap}-scale{scale}"), LmSpec { vars: bools(n), rows: vec![row(&wt[..n], Rel::Le, cap, "cap")], obj: vals.clone(), offset: 0.0, sense: Sense::Max }));
                    // the covering twin: cheapest selection reaching the capacity
                    out.push((format!("near-tie-covering-n{n}-need{cap}-scale{scale}"), LmSpec { vars: bools(n), rows: vec![row(&wt[..n], Rel::Ge, cap, "need")], obj: vals, offset: 0.0, sense: Sense::Min }));
                }
            }
        }
    }
    // objectives of magnitude well below 1 (values of a few hundredths): a relative gap must stay relative
    for n in [5usize, 7] {
        if quick && n == 5 {
            continue;
        }
        let tot: f64 = w[..n].iter().sum();
        let small: Vec<f64> = v[..n].iter().enumerate().map(|(i, x)| (x + ((i * 3) % 4) as f64) / 128.0).collect();
        out.push((format!("small-objective-knapsack-n{n}"), LmSpec { vars: bools(n), rows: vec![row(&w[..n], Rel::Le, (tot / 2.0).floor(), "cap")], obj: small.clone(), offset: 0.0, sense: Sense::Max }));
        out.push((format!("small-objective-covering-n{n}"), LmSpec { vars: bools(n), rows: vec![row(&w[..n], Rel::Ge, (tot / 2.0).floor(), "need")], obj: small, offset: 0.0, sense: Sense::Min }));
    }
    // values nearly proportional to the weights, all below 0.06: the first incumbent of a depth-first search is
    // far from the optimum in relative terms while every absolute difference is tiny
    {
        let wts = [39.0, 42.0, 22.0, 46.0, 25.0, 10.0, 43.0];
        let vals = [0.046, 0.048, 0.026, 0.05, 0.027, 0.01, 0.052];
        for cap in [102.0, 90.0, 120.0] {
            if quick && cap != 102.0 {
                continue;
            }
            out.push((format!("small-objective-proportional-knapsack-cap{cap}"), LmSpec { vars: bools(7), rows: vec![row(&wts, Rel::Le, cap, "cap")], obj: vals.to_vec(), offset: 0.0, sense: Sense::Max }));
            out.push((format!("small-objective-proportional-covering-need{cap}"), LmSpec { vars: bools(7), rows: vec![row(&wts, Rel::Ge, cap, "need")], obj: vals.to_vec(), offset: 0.0, sense: Sense::Min }));
        }
    }
    // fixed charge through a big-M row: y may only be positive when the Boolean b pays for it
    for (mname, big) in [("1e6", 1e6), ("1e9", 1e9)] {
        for gain in [1.0, 3.0] {
            out.push((
                format!("fixed-charge-bigM{mname}-gain{gain}"),
                LmSpec {
                    vars: vec![("b".into(), Dom::Bool), ("y".into(), Dom::NonNegB(0.0, 5.0))],
                    rows: vec![row(&[-big, 1.0], Rel::Le, 0.0, "link")],
                    obj: vec![-1.0, gain],
                    offset: 0.0,
                    sense: Sense::Max,
                },
            ));
        }
    }
    // unbounded through a continuous variable
    out.push((
        "unbounded-mixed".into(),
        LmSpec {
            vars: vec![("b1".into(), Dom::Bool), ("b2".into(), Dom::Bool), ("y".into(), Dom::NonNeg)],
            rows: vec![row(&[1.0, 1.0, 0.0], Rel::Le, 1.0, "one")],
            obj: vec![1.0, 2.0, 1.0],
            offset: 0.0,
            sense: Sense::Max,
        },
    ));
    // pure LPs (non-MIP path has its own limit handling)
    out.push((
        "pure-lp".into(),
        LmSpec {
            vars: vec![("x".into(), Dom::NonNeg), ("y".into(), Dom::NonNeg), ("z".into(), Dom::NonNegB(0.0, 4.0))],
            rows: vec![row(&[1.0, 2.0, 1.0], Rel::Le, 10.0, "r1"), row(&[3.0, 1.0, 0.0], Rel::Le, 12.0, "r2"), row(&[1.0, 0.0, 1.0], Rel::Ge, 1.0, "r3")],
            obj: vec![2.0, 3.0, 1.0],
            offset: 0.0,
            sense: Sense::Max,
        },
    ));
    out.push((
        "pure-lp-infeasible".into(),
        LmSpec {
            vars: vec![("x".into(), Dom::NonNeg), ("y".into(), Dom::NonNeg)],
            rows: vec![row(&[1.0, 1.0], Rel::Le, 1.0, "r1"), row(&[1.0, 1.0], Rel::Ge, 2.0, "r2")],
            obj: vec![1.0, 1.0],
            offset: 0.0,
            sense: Sense::Min,
        },
    ));
    // systematic knapsacks (max, <=) and coverings (min, >=): weights and values from small menus;
    // 3 items in the quick tier, 4 items in the thorough tier
    let ws = [2.0, 3.0, 5.0];
    let vs = [3.0, 4.0, 7.0];
    let items: u32 = if quick { 3 } else { 4 };
    for code in 0..(3u32.pow(2 * items)) {
        let mut c = code;
        let mut wv = vec![];
        let mut vv = vec![];
        for _ in 0..items {
            wv.push(ws[(c % 3) as usize]);
            c /= 3;
        }
        for _ in 0..items {
            vv.push(vs[(c % 3) as usize]);
            c /= 3;
        }
        let tot: f64 = wv.iter().sum();
        let totv: f64 = vv.iter().sum();
        out.push((
            format!("k{items}-{code}"),
            LmSpec { vars: bools(items as usize), rows: vec![row(&wv, Rel::Le, (tot / 2.0).floor() + 0.5, "cap")], obj: vv.clone(), offset: 0.0, sense: Sense::Max },
        ));
        out.push((
            format!("c{items}-{code}"),
            LmSpec { vars: bools(items as usize), rows: vec![row(&vv, Rel::Ge, (totv / 2.0).floor() + 0.5, "need")], obj: wv, offset: 0.25, sense: Sense::Min },
        ));
    }
    // mixed-integer models as the compiler produces them (selector binaries, big-M rows): every k-th
    // objective model of the C02 family that compiles to a model with integer auxiliaries
    let n = crate::props::c02::family_size_pub(1, true);
    let mut taken = 0;
    let want = if quick { 60 } else { 600 };
    let stride = (n / (want as u64 * 3)).max(1);
    let mut i = 0;
    while i < n && taken < want {
        let case = crate::props::c02::family_pub(i, 1, true);
        if let Ok(Ok(lm)) = crate::core::catch(|| case.model.compile()) {
            if let Some(spec) = LmSpec::from_rooc(&lm) {
                if !spec.all_continuous() && spec.vars.len() <= 9 && !crate::props::c01::is_inexact(&case.model) {
                    out.push((format!("compiled-{i}"), spec));
                    taken += 1;
                }
            }
        }
        i += stride;
    }
    out
}

const DOORS: [&str; 2] = ["free-function", "builder-Microlp"];
const GAPS: [Option<f64>; 12] = [None, Some(0.0), Some(1e-9), Some(0.05), Some(0.1), Some(0.5), Some(10.0), Some(-1.0), Some(-0.0), Some(f64::NAN), Some(f64::INFINITY), Some(f64::NEG_INFINITY)];

fn gap_valid(g: Option<f64>) -> bool {
    match g {
        None => true,
        Some(g) => g.is_finite() && g >= 0.0,
    }
}

fn check_model(name: &str, spec: &LmSpec, l: &mut Local) {
    let lm = spec.to_rooc();
    let orc = oracle(spec);
    let zstar = match &orc {
        LpResult::Optimal { value, .. } => Some(to_f64(value)),
        _ => None,
    };
    let oname = match &orc {
        LpResult::Optimal { .. } => "optimal",
        LpResult::Infeasible => "infeasible",
        LpResult::Unbounded => "unbounded",
    };
    l.count(&format!("oracle:{oname}"));
    // uninterrupted run: number of clock reads N and reference answer
    web_time::vclock::reset();
    // a limit that can never fire, so that the run performs the same clock reads as a limited one
    let never = MilpOptions { mip_gap: None, time_limit: Some(Duration::from_nanos(u64::MAX / 4)) };
    let base = rooc::solve_milp_lp_problem_with(&lm, &never);
    let n_reads = web_time::vclock::reads();
    // the clock patch is behaviour-preserving: same answer as the plain entry point
    let plain = rooc::solve_milp_lp_problem(&lm);
    match (&base, &plain) {
        (Ok(a), Ok(b)) if a.value() == b.value() => {}
        (Err(a), Err(b)) if classify_err(a) == classify_err(b) => {}
        _ => l.violation("never-firing-limit-changes-answer", "a limit that never fires changes the answer of the search", json!({"model": spec.show()})),
    }
    l.max("clock_reads_uninterrupted", n_reads);
    let base_desc = match &base {
        Ok(s) => format!("Ok({})", s.value()),
        Err(e) => format!("Err({:?})", classify_err(e)),
    };
    // the plain entry point must agree with the oracle (also judged by C05; here it anchors the sweep)
    match (&base, zstar) {
        (Ok(s), Some(z)) => {
            if (s.value() - z).abs() > 1e-6 * z.abs().max(1.0) {
                l.violation("unlimited:wrong-optimum", format!("{name}: unlimited run returns {} but optimum is {z}", s.value()), json!({"model": spec.show()}));
            }
        }
        (Ok(_), None) => l.violation("unlimited:solution-for-non-optimal", format!("{name}: unlimited run returns a solution but the model is {oname}"), json!({"model": spec.show()})),
        (Err(_), Some(_)) => l.violation("unlimited:error-for-optimal", format!("{name}: unlimited run fails ({base_desc}) on a solvable model"), json!({"model": spec.show()})),
        (Err(_), None) => {}
    }
    l.sample(|| json!({"model": spec.show(), "name": name, "clock_reads": n_reads, "unlimited": base_desc, "oracle": oname, "expiry_points": n_reads + 2, "gaps": GAPS.len()}));
    if zstar.is_some() {
        l.nontrivial(&spec.canon_hash());
    }
    // a gap without any time limit, through the builder's solver object, must answer like the unlimited run
    for gap in GAPS {
        if !gap_valid(gap) {
            continue;
        }
        let mut solver = rooc::Microlp::new();
        if let Some(g) = gap {
            solver = solver.with_mip_gap(g);
        }
        web_time::vclock::reset();
        let r = crate::core::catch(|| rooc::builder::Solver::solve(&solver, &lm));
        l.count("builder_without_time_limit");
        let ok = match (&r, &base) {
            (Ok(Ok(a)), Ok(b)) => {
                let g = gap.unwrap_or(0.0);
                (a.value() - b.value()).abs() <= g * a.value().abs().max(b.value().abs()).max(1e-10) + 1e-6 * b.value().abs().max(1.0)
            }
            (Ok(Err(a)), Err(b)) => classify_err(a) == classify_err(b),
            _ => false,
        };
        if !ok {
            l.violation("builder:no-time-limit-differs-from-unlimited", format!("Microlp builder solver with gap {:?} and no time limit answers differently from the unlimited search ({base_desc})", gap), json!({"model": spec.show(), "name": name, "mip_gap": format!("{gap:?}")}));
        }
    }
    for (door, gap) in DOORS.iter().flat_map(|d| GAPS.iter().map(move |g| (*d, *g))) {
        let gname = match gap {
            None => "unset".to_string(),
            Some(g) => format!("{g}"),
        };
        for k in 0..=(n_reads + 1) {
            let opts = MilpOptions { mip_gap: gap, time_limit: Some(Duration::from_nanos(k)) };
            web_time::vclock::reset();
            crate::core::set_phase(&format!("{door} time_limit={k}ns gap={gname}"));
            let r = if door == "free-function" {
                crate::core::catch(|| rooc::solve_milp_lp_problem_with(&lm, &opts))
            } else {
                // the builder's solver object: options set through with_mip_gap / with_time_limit in both call orders
                let mut solver = rooc::Microlp::new();
                if k % 2 == 0 {
                    solver = solver.with_time_limit(Duration::from_nanos(k));
                }
                if let Some(g) = gap {
                    solver = solver.with_mip_gap(g);
                }
                if k % 2 == 1 {
                    solver = solver.with_time_limit(Duration::from_nanos(k));
                }
                crate::core::catch(|| rooc::builder::Solver::solve(&solver, &lm))
            };
            l.count(&format!("door:{door}"));
            l.count("expiry_points");
            let case = |r: &str| json!({"model": spec.show(), "name": name, "door": door, "time_limit_ns": k, "clock_reads_uninterrupted": n_reads, "mip_gap": gname, "result": r, "oracle": oname, "optimum": zstar});
            let r = match r {
                Err(p) => {
                    l.violation("panic", format!("panicked: {p}"), case("panic"));
                    continue;
                }
                Ok(r) => r,
            };
            if !gap_valid(gap) {
                match r {
                    Err(_) => l.count("invalid-gap-rejected"),
                    Ok(s) => l.violation(format!("invalid-gap-accepted:{gname}"), format!("mip_gap={gname} accepted, returned value {}", s.value()), case("ok")),
                }
                continue;
            }
            match r {
                Err(e) => {
                    let c = classify_err(&e);
                    l.count(&format!("result:err:{}", match &c { crate::solve::Outcome::Infeasible => "infeasible".to_string(), crate::solve::Outcome::Unbounded => "unbounded".into(), crate::solve::Outcome::Other(s) => s.chars().take(20).collect(), o => format!("{o:?}") }));
                    match c {
                        crate::solve::Outcome::Infeasible if oname != "infeasible" => l.violation("limit:infeasible-for-feasible", format!("reports infeasible with time_limit={k}ns but the model is {oname}"), case("infeasible")),
                        crate::solve::Outcome::Unbounded if oname != "unbounded" => l.violation("limit:unbounded-for-bounded", format!("reports unbounded with time_limit={k}ns but the model is {oname}"), case("unbounded")),
                        _ => {}
                    }
                    // a run that is never interrupted must answer like the unlimited run
                    if k == n_reads + 1 && base.is_ok() && gap_valid(gap) {
                        l.violation("limit:error-although-limit-never-fires", format!("limit larger than the whole search, yet {:?}", classify_err(&e)), case("err"));
                    }
                }
                Ok(s) => {
                    let status = s.status();
                    let sol = conv_milp(s);
                    l.count(&format!("result:ok:{:?}", status));
                    let desc = format!("Ok(status={:?}, value={}, x={:?})", status, sol.value, sol.assignment);
                    if zstar.is_none() {
                        l.violation(format!("limit:solution-for-{oname}"), format!("a solution is returned for a model that is {oname}"), case(&desc));
                        continue;
                    }
                    let z = zstar.unwrap();
                    let cert = certificate(SolverKind::Milp, spec, &sol);
                    if !cert.is_empty() {
                        let kind = cert[0].0.split(':').nth(1).unwrap_or("?").to_string();
                        l.violation(format!("limit:returned-point-{kind}:status={:?}", status), format!("time_limit={k}ns gap={gname}: returned point fails the certificate: {}", cert[0].1), case(&desc));
                        continue;
                    }
                    match status {
                        SolutionStatus::Optimal => {
                            let g = gap.unwrap_or(0.0);
                            let allowed = g * sol.value.abs().max(z.abs()).max(1e-10) + 1e-6 * z.abs().max(1.0);
                            if (sol.value - z).abs() > allowed {
                                l.violation("limit:suboptimal-labelled-optimal", format!("time_limit={k}ns gap={gname}: value {} labelled Optimal, true optimum {z}", sol.value), case(&desc));
                            }
                        }
                        SolutionStatus::Feasible => {}
                        other => l.violation("limit:odd-status", format!("solution returned with status {:?}", other), case(&desc)),
                    }
                }
            }
        }
    }
}

pub fn run(mut run: Run) -> ! {
    crate::core::silence_panics();
    run.isolate = true;
    run.case_timeout_s = 60.0;
    let m = menu(run.quick());
    run.rule = "for every MILP/LP model of the menu (knapsack, covering, near-tie knapsacks and coverings at objective scale 1e4 and 1e6 where many selections lie within 1e-4 of the optimum, knapsacks and coverings whose objective values are a few hundredths, fixed-charge models with big-M 1e6 and 1e9, mixed-integer, general-integer, infeasible, unbounded, pure LP, 60 (thorough: 600) mixed-integer models compiled from the C02 objective family; plus every knapsack (max, <=) and covering (min, >=) problem over weight/value menus of 3 values: all 2 x 729 three-item ones in the quick tier, all 2 x 6561 four-item ones in the thorough tier) the number N of clock reads of the uninterrupted search is measured under the virtual clock, then the search is run for EVERY expiry point k = 0..N+1 (time_limit = k ns) x 12 mip_gap values x 2 entry points (solve_milp_lp_problem_with; the builder solver object Microlp::new().with_mip_gap().with_time_limit() in both call orders), plus the builder object with a gap and no time limit; evaluations = models, coverage.expiry_points = executions; non-trivial = model with a finite optimum".into();
    run.assume("virtual clock replaces crate web-time (the only clock microlp reads): each read advances time by 1 ns, so real executions are a subset of the enumerated expiry points (a real deadline also fires at some clock read and stays fired)");
    run.assume("exact MILP optimum by integer box enumeration + exact LP; feasibility certificate at 1e-6; Optimal label must be within gap*max(|value|,|optimum|,1e-10) (+1e-6 relative) of the optimum (a relative gap is read against whichever of the two is larger, so that a returned value of 0 is not held to a zero tolerance)");
    let m2 = m.clone();
    run.family("milp-menu", m.len() as u64, move |i, l| {
        let (name, spec) = &m2[i as usize];
        check_model(name, spec, l);
    });
    run.require("expiry_points");
    run.require("invalid-gap-rejected");
    run.require("result:ok:Optimal");
    let ep = run.counter("expiry_points");
    run.extra.insert("expiry_points".into(), json!(ep));
    let statuses: Vec<String> = run.merged.counters.keys().filter(|k| k.starts_with("result:")).cloned().collect();
    run.extra.insert("statuses_reached".into(), json!(statuses));
    run.finish()
}
