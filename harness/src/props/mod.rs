pub mod c04_c05;
