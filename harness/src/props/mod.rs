pub mod c04_c05;
pub mod c13;
pub mod c14;
