pub mod c04_c05;
pub mod c13;
pub mod c14;
pub mod c17;
pub mod c20;
#[cfg(feature = "vclock")]
pub mod c15;
