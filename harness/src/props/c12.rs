//! C12 — compiled output (Model and LinearModel renderings) is a valid program with the same meaning.
use crate::core::{Digits, Local, Run};
use crate::exact::Rel;
use crate::lm::{Dom, LmFamily, LmSpec, Row, Sense};
use crate::props::c11::{CORPUS, expr_sources};
use crate::textref::strip_spans;
use indexmap::IndexMap;
use rooc::{LinearModel, Linearizer, RoocParser};
use serde_json::{Value, json};

fn lm_text(spec: &LmSpec) -> String {
    spec.show()
}

/// exact comparison of two linear models up to row order
pub fn lm_diff(a: &LinearModel, b: &LinearModel) -> Option<String> {
    let (Some(sa), Some(sb)) = (LmSpec::from_rooc(a), LmSpec::from_rooc(b)) else { return Some("unsupported relation".into()) };
    let (sa, sb) = (sort_columns(sa), sort_columns(sb));
    if sa.vars != sb.vars {
        return Some(format!("variables/domains differ: {:?} vs {:?}", sa.vars, sb.vars));
    }
    if sa.sense != sb.sense {
        return Some("optimisation type differs".into());
    }
    let sa_obj: Vec<f64> = sa.obj.iter().map(|c| if *c == 0.0 { 0.0 } else { *c }).collect();
    let sb_obj: Vec<f64> = sb.obj.iter().map(|c| if *c == 0.0 { 0.0 } else { *c }).collect();
    // a satisfiability model has no objective: its coefficients and offset carry no meaning
    if sa.sense == Sense::Satisfy {
        // rows compared below
    } else if sa_obj != sb_obj {
        return Some(format!("objective differs: {:?} vs {:?}", sa.obj, sb.obj));
    }
    if sa.sense != Sense::Satisfy && sa.offset != sb.offset {
        return Some(format!("offset differs: {} vs {}", sa.offset, sb.offset));
    }
    // -0.0 and 0.0 are the same number; an all-zero row is only its truth value (the compiler folds
    // constant comparisons: a true one is dropped, a false one becomes the canonical 0 = 1 row)
    let z = |v: f64| if v == 0.0 { 0.0 } else { v };
    let key = |r: &Row| -> Option<String> {
        if r.coef.iter().all(|c| *c == 0.0) {
            let holds = match r.rel {
                Rel::Le => 0.0 <= r.rhs,
                Rel::Ge => 0.0 >= r.rhs,
                Rel::Eq => 0.0 == r.rhs,
            };
            return if holds { None } else { Some("FALSE".to_string()) };
        }
        Some(format!("{}|{:?}|{:?}|{}", r.name, r.coef.iter().map(|c| z(*c)).collect::<Vec<_>>(), r.rel, z(r.rhs)))
    };
    let mut ra: Vec<String> = sa.rows.iter().filter_map(key).collect();
    let mut rb: Vec<String> = sb.rows.iter().filter_map(key).collect();
    ra.sort();
    rb.sort();
    ra.dedup_by(|a, b| a == "FALSE" && b == "FALSE");
    rb.dedup_by(|a, b| a == "FALSE" && b == "FALSE");
    if ra != rb {
        let only_a: Vec<&String> = ra.iter().filter(|r| !rb.contains(r)).collect();
        let only_b: Vec<&String> = rb.iter().filter(|r| !ra.contains(r)).collect();
        return Some(format!("rows differ: only in first {:?}, only in second {:?}", only_a, only_b));
    }
    None
}

/// canonical column order (compiled models are sorted by name; hand-built ones need not be)
fn sort_columns(s: LmSpec) -> LmSpec {
    let mut idx: Vec<usize> = (0..s.vars.len()).collect();
    idx.sort_by(|a, b| s.vars[*a].0.cmp(&s.vars[*b].0));
    LmSpec {
        vars: idx.iter().map(|&i| s.vars[i].clone()).collect(),
        rows: s.rows.iter().map(|r| Row { coef: idx.iter().map(|&i| r.coef.get(i).copied().unwrap_or(0.0)).collect(), rel: r.rel, rhs: r.rhs, name: r.name.clone() }).collect(),
        obj: idx.iter().map(|&i| s.obj.get(i).copied().unwrap_or(0.0)).collect(),
        offset: s.offset,
        sense: s.sense,
    }
}

fn compile_text(src: &str) -> Result<(rooc::model_transformer::Model, Result<LinearModel, String>), String> {
    let parser = RoocParser::new(src.to_string());
    parser.type_check(&vec![], &IndexMap::new()).map_err(|e| format!("type check: {}", e.lines().next().unwrap_or("")))?;
    let m = parser.parse_and_transform(vec![], &IndexMap::new()).map_err(|e| format!("transform: {}", e.lines().next().unwrap_or("")))?;
    let lm = Linearizer::linearize(m.clone()).map_err(|e| e.to_string());
    Ok((m, lm))
}

fn model_json(m: &rooc::model_transformer::Model) -> Value {
    let mut v = serde_json::to_value(m).unwrap_or(Value::Null);
    strip_spans(&mut v);
    v
}

/// leg 1: Model rendering of a compiled source text
fn check_model_rendering(src: &str, sig: &str, l: &mut Local) {
    let Ok(Ok((m, lm))) = crate::core::catch(|| compile_text(src)) else {
        l.count("source-does-not-compile(skipped)");
        return;
    };
    l.count("models_rendered");
    let text = m.to_string();
    l.nontrivial(&text);
    let case = |d: &str| json!({"source": src, "model_rendering": text, "detail": d});
    l.sample(|| case("sample"));
    match crate::core::catch(|| compile_text(&text)) {
        Err(p) => l.violation(format!("model:panic:{sig}"), format!("panic while recompiling the rendering: {p}"), case("")),
        Ok(Err(e)) => l.violation(format!("model:rendering-rejected:{sig}"), format!("rendering of the compiled model is rejected: {e}"), case(&e)),
        Ok(Ok((m2, lm2))) => {
            if model_json(&m) == model_json(&m2) {
                l.count("model_renderings_structurally_identical");
            }
            match (lm, lm2) {
                (Ok(a), Ok(b)) => {
                    l.count("linear_models_compared");
                    if let Some(d) = lm_diff(&a, &b) {
                        l.violation(format!("model:linear-model-differs:{sig}"), d.clone(), case(&d));
                    }
                }
                (Ok(_), Err(e)) => l.violation(format!("model:rendering-does-not-linearize:{sig}"), e.clone(), case(&e)),
                (Err(_), Ok(_)) => l.violation(format!("model:only-rendering-linearizes:{sig}"), "rendering linearizes although the original does not", case("")),
                (Err(_), Err(_)) => {}
            }
        }
    }
}

/// leg 2: LinearModel rendering
pub fn check_linear_rendering(lm: &LinearModel, origin: &str, sig: &str, l: &mut Local) {
    l.count("linear_models_rendered");
    let text = lm.to_string();
    l.nontrivial(&text);
    let case = |d: &str| json!({"origin": origin, "linear_model_rendering": text, "detail": d});
    l.sample(|| case("sample"));
    match crate::core::catch(|| compile_text(&text)) {
        Err(p) => l.violation(format!("linear:panic:{sig}"), format!("panic while recompiling the rendering: {p}"), case("")),
        Ok(Err(e)) => {
            if lm.constraints().is_empty() && !lm.variables().is_empty() {
                l.violation("linear:rendering-rejected:no-rows-before-define", format!("rendering of a linear model without rows is rejected: {e}"), case(&e));
            } else {
                l.violation(format!("linear:rendering-rejected:{sig}"), format!("rendering of the linear model is rejected: {e}"), case(&e));
            }
        }
        Ok(Ok((_, Err(e)))) => l.violation(format!("linear:rendering-does-not-linearize:{sig}"), e.clone(), case(&e)),
        Ok(Ok((m2, Ok(lm2)))) => {
            l.count("linear_renderings_recompiled");
            // unused variables (all-zero columns) are dropped by the compiler: compare on the used ones
            if let Some(d) = lm_diff_modulo_unused(lm, &lm2) {
                let limit = rooc::verif_bounds::analyze_bounds(m2.domain(), m2.constraints(), None).reached_limit();
                if limit && d.starts_with("variables/domains differ") {
                    l.violation("linear:domains-differ:propagation-step-limit-reached", d.clone(), case(&d));
                } else if d.starts_with("variables/domains differ") && only_tightened(lm, &lm2) && lm.domain().values().any(|v| matches!(v.get_type(), rooc::VariableType::IntegerRange(_, _))) {
                    l.violation("linear:domains-differ:integer-rounding-not-fed-back-into-propagation", d.clone(), case(&d));
                } else if d == "rows differ: only in first [], only in second [\"FALSE\"]"
                    && lm.domain().values().any(|v| matches!(v.get_type(), rooc::VariableType::IntegerRange(_, _)))
                    && LmSpec::from_rooc(lm).map(|s| matches!(crate::exact::solve_milp(&s.to_exact()), crate::exact::LpResult::Infeasible)).unwrap_or(false)
                {
                    // the model is infeasible already (exact oracle) but only the recompilation notices it and adds
                    // the explicit contradiction row: the rounded integer range is not fed back into propagation
                    l.violation("linear:contradiction-row-appears-on-recompilation:integer-rounding-not-fed-back-into-propagation", d.clone(), case(&d));
                } else {
                    l.violation(format!("linear:meaning-changed:{sig}"), d.clone(), case(&d));
                }
                return;
            }
            let text2 = lm2.to_string();
            if text2 != text && lm_diff(lm, &lm2).is_none() {
                let const_rows = |m: &LinearModel| m.constraints().iter().filter(|c| c.coefficients().iter().all(|v| *v == 0.0)).count();
                if const_rows(lm) != const_rows(&lm2) {
                    l.violation("linear:rendering-not-a-fixpoint:true-constant-row-dropped-on-recompilation", "a compiled model keeps a row such as 0 >= -2, recompiling its rendering drops it", case(&text2));
                } else {
                    l.violation(format!("linear:rendering-not-a-fixpoint:{sig}"), "render(compile(render(lm))) differs from render(lm)", case(&text2));
                }
            }
        }
    }
}

/// same model except that every domain of `b` is contained in the corresponding domain of `a`
fn only_tightened(a: &LinearModel, b: &LinearModel) -> bool {
    let (Some(sa), Some(mut sb)) = (LmSpec::from_rooc(a), LmSpec::from_rooc(b)) else { return false };
    if sa.vars.len() != sb.vars.len() {
        return false;
    }
    for (va, vb) in sa.vars.iter().zip(sb.vars.iter_mut()) {
        let (la, ha) = va.1.bounds();
        let (lb, hb) = vb.1.bounds();
        if va.0 != vb.0 || lb < la || hb > ha || va.1.is_int() != vb.1.is_int() {
            return false;
        }
        vb.1 = va.1.clone();
    }
    lm_diff(a, &sb.to_rooc()).is_none()
}

/// compares two linear models after removing, on both sides, the variables whose column is all zero
pub fn lm_diff_modulo_unused_pub(a: &LinearModel, b: &LinearModel) -> Option<String> {
    let strip = |m: &LinearModel| -> Option<LinearModel> {
        let sa = LmSpec::from_rooc(m)?;
        let used: Vec<usize> = (0..sa.vars.len()).filter(|&i| (sa.sense != Sense::Satisfy && sa.obj[i] != 0.0) || sa.rows.iter().any(|r| r.coef[i] != 0.0)).collect();
        Some(
            LmSpec {
                vars: used.iter().map(|&i| sa.vars[i].clone()).collect(),
                rows: sa.rows.iter().map(|r| Row { coef: used.iter().map(|&i| r.coef[i]).collect(), rel: r.rel, rhs: r.rhs, name: r.name.clone() }).collect(),
                obj: used.iter().map(|&i| sa.obj[i]).collect(),
                offset: sa.offset,
                sense: sa.sense,
            }
            .to_rooc(),
        )
    };
    match (strip(a), strip(b)) {
        (Some(x), Some(y)) => lm_diff(&x, &y),
        _ => Some("unsupported relation".into()),
    }
}

/// a variable with an all-zero column never reaches the recompiled model (it is unused); project it away
fn lm_diff_modulo_unused(a: &LinearModel, b: &LinearModel) -> Option<String> {
    let Some(sa) = LmSpec::from_rooc(a) else { return Some("unsupported".into()) };
    let used: Vec<usize> = (0..sa.vars.len()).filter(|&i| (sa.sense != Sense::Satisfy && sa.obj[i] != 0.0) || sa.rows.iter().any(|r| r.coef[i] != 0.0)).collect();
    if used.len() == sa.vars.len() {
        return lm_diff(a, b);
    }
    let proj = LmSpec {
        vars: used.iter().map(|&i| sa.vars[i].clone()).collect(),
        rows: sa.rows.iter().map(|r| Row { coef: used.iter().map(|&i| r.coef[i]).collect(), rel: r.rel, rhs: r.rhs, name: r.name.clone() }).collect(),
        obj: used.iter().map(|&i| sa.obj[i]).collect(),
        offset: sa.offset,
        sense: sa.sense,
    };
    lm_diff(&proj.to_rooc(), b)
}

/// A hand-built linear model is not a compiled one (its domains are not tightened by its own rows):
/// its rendering must compile to a model with the same rows and objective, and that compiled model
/// must then satisfy the full round-trip property.
fn check_direct(spec: &LmSpec, sig: &str, l: &mut Local) {
    let lm = spec.to_rooc();
    let text = lm.to_string();
    let case = |d: &str| json!({"origin": lm_text(spec), "linear_model_rendering": text, "detail": d});
    match crate::core::catch(|| compile_text(&text)) {
        Err(p) => l.violation(format!("linear:panic:{sig}"), format!("panic while compiling the rendering: {p}"), case("")),
        Ok(Err(e)) => l.violation(format!("linear:rendering-rejected:{sig}"), format!("rendering of the linear model is rejected: {e}"), case(&e)),
        Ok(Ok((_, Err(e)))) => l.violation(format!("linear:rendering-does-not-linearize:{sig}"), e.clone(), case(&e)),
        Ok(Ok((_, Ok(compiled)))) => {
            // same rows/objective; domains may only have been tightened
            let mut relaxed = LmSpec::from_rooc(&compiled).unwrap();
            for (name, dom) in relaxed.vars.iter_mut() {
                if let Some((_, d0)) = spec.vars.iter().find(|v| &v.0 == name) {
                    let (lo0, hi0) = d0.bounds();
                    let (lo, hi) = dom.bounds();
                    if lo >= lo0 && hi <= hi0 && d0.is_int() == dom.is_int() {
                        *dom = Dom::from_vt(&d0.to_vt());
                    }
                }
            }
            if let Some(d) = lm_diff_modulo_unused(&lm, &relaxed.to_rooc()) {
                // the compiler may normalise a row (b <= 0 over a Boolean becomes b = 0): accept a model
                // that is exactly equivalent (same optimum/status for the objective and for +-e_i)
                if equivalent_exact(spec, &LmSpec::from_rooc(&compiled).unwrap()) {
                    l.count("direct:equivalent-after-normalisation");
                } else {
                    l.violation(format!("linear:meaning-changed:{sig}"), d.clone(), case(&d));
                    return;
                }
            }
            check_linear_rendering(&compiled, &text, sig, l);
        }
    }
}

pub fn equivalent_exact_pub(a: &LmSpec, b: &LmSpec) -> bool {
    equivalent_exact(a, b)
}
/// equivalence over the declared variables only (auxiliaries, whose names start with `$`, may differ
/// in number and meaning between two compilations of the same source model)
pub fn equivalent_exact_declared(a: &LmSpec, b: &LmSpec) -> bool {
    equivalent_exact_on(a, b, true)
}

fn equivalent_exact(a: &LmSpec, b: &LmSpec) -> bool {
    equivalent_exact_on(a, b, false)
}

fn equivalent_exact_on(a: &LmSpec, b: &LmSpec, declared_only: bool) -> bool {
    use crate::exact::solve_milp;
    // b may lack unused variables of a; compare over b's variables embedded in a's names
    let names: Vec<String> = a.vars.iter().map(|v| v.0.clone()).collect();
    let mut dirs: Vec<(Vec<f64>, Sense)> = vec![(a.obj.clone(), a.sense)];
    for i in 0..names.len() {
        if declared_only && names[i].starts_with('$') {
            continue;
        }
        for s in [Sense::Min, Sense::Max] {
            let mut o = vec![0.0; names.len()];
            o[i] = 1.0;
            dirs.push((o, s));
        }
    }
    for (obj, sense) in dirs {
        let mut sa = a.clone();
        sa.obj = obj.clone();
        sa.sense = sense;
        let mut sb = b.clone();
        sb.sense = sense;
        sb.obj = b.vars.iter().map(|v| names.iter().position(|n| n == &v.0).map(|i| obj[i]).unwrap_or(0.0)).collect();
        // a variable of a missing from b is unconstrained by rows in a: its direction is judged in a only
        let missing_dir = names.iter().enumerate().any(|(i, n)| obj[i] != 0.0 && !b.vars.iter().any(|v| &v.0 == n));
        if missing_dir {
            continue;
        }
        if sense == Sense::Satisfy {
            sa.sense = Sense::Min;
            sb.sense = Sense::Min;
            sa.obj = vec![0.0; names.len()];
            sb.obj = vec![0.0; sb.vars.len()];
        }
        sa.offset = 0.0;
        sb.offset = 0.0;
        if solve_milp(&sa.to_exact()) != {
            let r = solve_milp(&sb.to_exact());
            // compare status and value only
            r
        } {
            let (ra, rb) = (solve_milp(&sa.to_exact()), solve_milp(&sb.to_exact()));
            use crate::exact::LpResult::*;
            let same = match (&ra, &rb) {
                (Optimal { value: x, .. }, Optimal { value: y, .. }) => x == y,
                (Infeasible, Infeasible) | (Unbounded, Unbounded) => true,
                _ => false,
            };
            if !same {
                return false;
            }
        }
    }
    true
}

const COEFS: [f64; 14] = [1.0, -1.0, 2.5, -2.5, 1e-9, -1e-9, 1e-6, -1e-6, -1e-5, 1e9, 0.0, 123456789.125, 1.000001, -0.999999];

fn coef_sig(c: f64) -> &'static str {
    if c == 0.0 {
        "zero"
    } else if c.abs() < 1e-5 {
        if c < 0.0 { "tiny-negative" } else { "tiny-positive" }
    } else if c.abs() == 1e-5 {
        "1e-5"
    } else if c.abs() >= 1e9 {
        "huge"
    } else {
        "regular"
    }
}

fn direct_size() -> u64 {
    (COEFS.len() as u64).pow(4) * 3 * 3
}
fn direct_case(i: u64) -> (LmSpec, String) {
    let mut d = Digits(i);
    let c1 = *d.of(&COEFS);
    let c2 = *d.of(&COEFS);
    let rhs = *d.of(&COEFS);
    let off = *d.of(&COEFS);
    let names: [(&str, &str); 3] = [("x", "y"), ("x_1", "$abs_0"), ("$max_0_select_1", "z_2_3")];
    let (n1, n2) = *d.of(&names);
    let rowname = *d.of(&["", "cap", "cap__2"]);
    let spec = LmSpec {
        vars: vec![(n1.to_string(), Dom::Real(-4.0, 4.0)), (n2.to_string(), Dom::NonNeg)],
        rows: vec![Row { coef: vec![c1, c2], rel: Rel::Le, rhs, name: rowname.to_string() }, Row { coef: vec![1.0, 1.0], rel: Rel::Ge, rhs: 0.0, name: String::new() }],
        obj: vec![c2, c1],
        offset: off,
        sense: Sense::Min,
    };
    let sig = format!("coef={},{} rhs={} offset={}", coef_sig(c1), coef_sig(c2), coef_sig(rhs), coef_sig(off));
    (spec, sig)
}

pub fn run(mut run: Run) -> ! {
    crate::core::silence_panics();
    run.rule = "leg 1: every source text of the C11 expression families (all trees with <= 3 binary operators, prefix decorations, 3 spellings) and the C11 corpus is compiled, the Model is rendered, the rendering recompiled and compared (Model structure and linear model); leg 2: every linear model obtained in leg 1, every member of direct LinearModel families (domain forms x relations) and a coefficient alphabet {+-1, +-2.5, +-1e-9, +-1e-6, -1e-5, 1e9, 0, 123456789.125, 1.000001, -0.999999} in coefficients/rhs/offset x $-prefixed and indexed names x row names incl. cap__2 is rendered, recompiled (parse, type check, transform, linearize) and compared exactly up to row order; the rendering must be a fix-point; distinct = rendered texts".into();
    run.assume("compiled models compared exactly (all numbers round-trip through Rust's shortest decimal rendering); variables with an all-zero column are projected away because the compiler drops unused variables");
    let quick = run.quick();
    // leg 1 + leg 2 on compiled models from expression sources
    let total = expr_sources(false, u64::MAX).0;
    run.family("M1-expression-programs", total, move |i, l| {
        let (_, src, sig) = expr_sources(false, i);
        let Some(src) = src else { return };
        check_model_rendering(&src, &sig, l);
        if let Ok(Ok((_, Ok(lm)))) = crate::core::catch(|| compile_text(&src)) {
            check_linear_rendering(&lm, &src, &sig, l);
        }
    });
    run.family("M2-corpus", CORPUS.len() as u64, |i, l| {
        let (name, src) = CORPUS[i as usize];
        check_model_rendering(src, &format!("corpus:{name}"), l);
        if let Ok(Ok((_, Ok(lm)))) = crate::core::catch(|| compile_text(src)) {
            check_linear_rendering(&lm, src, &format!("corpus:{name}"), l);
        }
    });
    run.family("L1-direct-coefficients", direct_size(), |i, l| {
        let (spec, sig) = direct_case(i);
        check_direct(&spec, &sig, l);
    });
    let fam = LmFamily {
        name: "L2-direct-domains",
        n: 2,
        m: 1,
        doms: vec![Dom::Free, Dom::NonNeg, Dom::NonNegB(1.0, 4.5), Dom::NonNegB(2.0, f64::INFINITY), Dom::NonNegB(0.0, 3.0), Dom::Real(-2.0, 3.0), Dom::Real(0.0, 3.0), Dom::Real(f64::NEG_INFINITY, 2.0), Dom::Real(-1.5, f64::INFINITY), Dom::Real(f64::NEG_INFINITY, -1.0), Dom::Bool, Dom::Int(-3, 2), Dom::Int(0, 1)],
        coefs: vec![0.0, 1.0, -2.5],
        rhss: vec![0.0, -2.0],
        rels: vec![Rel::Le, Rel::Ge, Rel::Eq],
        objs: vec![0.0, -1.0, 2.0],
        senses: vec![Sense::Min, Sense::Max, Sense::Satisfy],
        offsets: vec![0.0, -1.5],
        named: true,
    };
    let f2 = fam.clone();
    run.family(fam.name, fam.size(), move |i, l| {
        let spec = f2.get(i);
        let sig = format!("domains:{}:{:?}", spec.vars.iter().map(|v| v.1.show().split('(').next().unwrap_or("").to_string()).collect::<Vec<_>>().join("+"), spec.sense);
        check_direct(&spec, &sig, l);
    });
    run.require("models_rendered");
    run.require("linear_models_compared");
    run.require("linear_renderings_recompiled");
    run.finish()
}
