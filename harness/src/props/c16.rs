//! C16 — all front doors agree: builder (operators, helpers, macros, every call order), text with inline
//! constants, text with API-supplied constants, PipeRunner presets, one-shot RoocSolver.
use crate::core::{Local, Run};
use crate::exact::{Rel, qf, to_f64};
use crate::linsem::*;
use crate::lm::{Dom, Sense};
use crate::props::c01::{Case, family_a, family_a_size};
use crate::props::c02;
use crate::props::c03::{render_for_c16, Style16};
use crate::props::c12::{lm_diff, lm_diff_modulo_unused_pub};
use crate::refsem::{Env, eval};
use indexmap::IndexMap;
use rooc::model_transformer::Exp;
use rooc::pipe::{AutoSolverPipe, CompilerPipe, LinearModelPipe, MILPSolverPipe, ModelPipe, PipeContext, PipeRunner, PipeableData, PreModelPipe};
use rooc::{Auto, BinOp, BuilderConstraint, Constant, Expr, LinearModel, Linearizer, ModelBuilder, Primitive, RoocParser, RoocSolver, UnOp, Var};
use serde_json::json;

/// Exp -> builder Expr through the operator overloads and helper functions.
/// spelling 0: every operand is converted to `Expr` first (Expr op Expr overloads only);
/// spelling 1: the most specific overload for each operand pair (i32 / f64 literals, `Var` handles, `bool`
///             in and/or, `Var::implies`, helper functions over `Var` items);
/// spelling 2: as 1 but integer constants are passed as f64 and Expr op Expr goes through `Expr op &Expr`.
fn to_builder(e: &Exp, vars: &IndexMap<String, Var>) -> Expr {
    to_builder_s(e, vars, 0)
}

enum Opnd {
    I(i32),
    F(f64),
    V(Var),
    E(Expr),
}
impl Opnd {
    fn expr(self) -> Expr {
        match self {
            Opnd::I(i) => Expr::from(i),
            Opnd::F(f) => Expr::from(f),
            Opnd::V(v) => Expr::from(v),
            Opnd::E(e) => e,
        }
    }
}

fn operand(e: &Exp, vars: &IndexMap<String, Var>, s: usize) -> Opnd {
    match e {
        Exp::Number(n) if s == 1 && n.fract() == 0.0 && n.abs() < 1e6 && !(*n == 0.0 && n.is_sign_negative()) => Opnd::I(*n as i32),
        Exp::Number(n) => Opnd::F(*n),
        Exp::Variable(v) => Opnd::V(vars[v]),
        other => Opnd::E(to_builder_s(other, vars, s)),
    }
}

fn arith(op: BinOp, l: Opnd, r: Opnd, s: usize) -> Expr {
    macro_rules! go {
        ($a:expr, $b:expr) => {
            match op {
                BinOp::Add => $a + $b,
                BinOp::Sub => $a - $b,
                BinOp::Mul => $a * $b,
                BinOp::Div => $a / $b,
                _ => unreachable!(),
            }
        };
    }
    use Opnd::*;
    match (l, r) {
        (I(a), V(b)) => go!(a, b),
        (I(a), E(b)) => go!(a, b),
        (F(a), V(b)) => go!(a, b),
        (F(a), E(b)) => go!(a, b),
        (V(a), I(b)) => go!(a, b),
        (V(a), F(b)) => go!(a, b),
        (V(a), V(b)) => go!(a, b),
        (V(a), E(b)) => go!(a, b),
        (E(a), I(b)) => go!(a, b),
        (E(a), F(b)) => go!(a, b),
        (E(a), V(b)) => go!(a, b),
        (E(a), E(b)) => {
            if s == 2 {
                let b = &b;
                go!(a, b)
            } else {
                go!(a, b)
            }
        }
        // two literals: there is no overload producing an Expr
        (a, b) => {
            let (a, b) = (a.expr(), b.expr());
            go!(a, b)
        }
    }
}

fn as_bool(o: &Opnd) -> Option<bool> {
    match o {
        Opnd::I(0) => Some(false),
        Opnd::I(1) => Some(true),
        Opnd::F(f) if *f == 0.0 && f.is_sign_positive() => Some(false),
        Opnd::F(f) if *f == 1.0 => Some(true),
        _ => None,
    }
}

fn logic2(and: bool, l: Opnd, r: Opnd) -> Expr {
    macro_rules! go {
        ($a:expr, $b:expr) => {
            if and { $a & $b } else { $a | $b }
        };
    }
    use Opnd::*;
    let (lb, rb) = (as_bool(&l), as_bool(&r));
    match (l, r, lb, rb) {
        (V(a), V(b), _, _) => go!(a, b),
        (V(a), E(b), _, _) => go!(a, b),
        (E(a), V(b), _, _) => go!(a, b),
        (E(a), E(b), _, _) => go!(a, b),
        (V(a), _, _, Some(b)) => go!(a, b),
        (E(a), _, _, Some(b)) => go!(a, b),
        (_, V(b), Some(a), _) => go!(a, b),
        (_, E(b), Some(a), _) => go!(a, b),
        (a, b, _, _) => {
            let (a, b) = (a.expr(), b.expr());
            go!(a, b)
        }
    }
}

fn to_builder_s(e: &Exp, vars: &IndexMap<String, Var>, s: usize) -> Expr {
    let all_vars = |v: &Vec<Exp>| -> Option<Vec<Var>> { if s == 0 { None } else { v.iter().map(|x| if let Exp::Variable(n) = x { Some(vars[n]) } else { None }).collect() } };
    match e {
        Exp::Number(n) => Expr::from(*n),
        Exp::Variable(v) => Expr::from(vars[v]),
        Exp::Abs(i) => match operand(i, vars, s) {
            Opnd::V(v) if s > 0 => rooc::builder::abs(v),
            Opnd::I(k) if s > 0 => rooc::builder::abs(k),
            o => rooc::builder::abs(o.expr()),
        },
        Exp::Min(v) => match all_vars(v) {
            Some(vs) => rooc::builder::min(vs),
            None => rooc::builder::min(v.iter().map(|x| to_builder_s(x, vars, s))),
        },
        Exp::Max(v) => match all_vars(v) {
            Some(vs) => rooc::builder::max(vs),
            None => rooc::builder::max(v.iter().map(|x| to_builder_s(x, vars, s))),
        },
        Exp::And(v) => {
            if v.len() == 2 {
                if s == 0 { to_builder_s(&v[0], vars, s) & to_builder_s(&v[1], vars, s) } else { logic2(true, operand(&v[0], vars, s), operand(&v[1], vars, s)) }
            } else {
                match all_vars(v) {
                    Some(vs) => rooc::builder::all(vs),
                    None => rooc::builder::all(v.iter().map(|x| to_builder_s(x, vars, s))),
                }
            }
        }
        Exp::Or(v) => {
            if v.len() == 2 {
                if s == 0 { to_builder_s(&v[0], vars, s) | to_builder_s(&v[1], vars, s) } else { logic2(false, operand(&v[0], vars, s), operand(&v[1], vars, s)) }
            } else {
                match all_vars(v) {
                    Some(vs) => rooc::builder::any(vs),
                    None => rooc::builder::any(v.iter().map(|x| to_builder_s(x, vars, s))),
                }
            }
        }
        Exp::Not(i) | Exp::UnOp(UnOp::Not, i) => match operand(i, vars, s) {
            Opnd::V(v) if s > 0 => !v,
            o => !o.expr(),
        },
        Exp::Xor(a, b) | Exp::BinOp(BinOp::Xor, a, b) => match (operand(a, vars, s), operand(b, vars, s)) {
            (Opnd::V(x), Opnd::V(y)) if s > 0 => x ^ y,
            (Opnd::V(x), Opnd::E(y)) if s > 0 => x ^ y,
            (Opnd::E(x), Opnd::V(y)) if s > 0 => x ^ y,
            (x, y) => x.expr() ^ y.expr(),
        },
        Exp::Implies(a, b) | Exp::BinOp(BinOp::Implies, a, b) => match (operand(a, vars, s), operand(b, vars, s)) {
            (Opnd::V(x), Opnd::V(y)) if s > 0 => x.implies(y),
            (Opnd::V(x), y) if s > 0 => x.implies(y.expr()),
            (x, Opnd::V(y)) if s > 0 => x.expr().implies(y),
            (x, Opnd::I(y)) if s > 0 => x.expr().implies(y),
            (x, y) => x.expr().implies(y.expr()),
        },
        Exp::Iff(a, b) | Exp::BinOp(BinOp::Iff, a, b) => match (operand(a, vars, s), operand(b, vars, s)) {
            (Opnd::V(x), Opnd::V(y)) if s > 0 => x.iff(y),
            (Opnd::V(x), y) if s > 0 => x.iff(y.expr()),
            (x, Opnd::V(y)) if s > 0 => x.expr().iff(y),
            (x, Opnd::F(y)) if s > 0 => x.expr().iff(y),
            (x, y) => x.expr().iff(y.expr()),
        },
        Exp::UnOp(UnOp::Neg, i) => match operand(i, vars, s) {
            Opnd::V(v) if s > 0 => -v,
            o => -o.expr(),
        },
        Exp::BinOp(BinOp::And, a, b) => if s == 0 { to_builder_s(a, vars, s) & to_builder_s(b, vars, s) } else { logic2(true, operand(a, vars, s), operand(b, vars, s)) },
        Exp::BinOp(BinOp::Or, a, b) => if s == 0 { to_builder_s(a, vars, s) | to_builder_s(b, vars, s) } else { logic2(false, operand(a, vars, s), operand(b, vars, s)) },
        Exp::BinOp(op, a, b) => {
            if s == 0 {
                arith(*op, Opnd::E(to_builder_s(a, vars, s)), Opnd::E(to_builder_s(b, vars, s)), 0)
            } else {
                arith(*op, operand(a, vars, s), operand(b, vars, s), s)
            }
        }
    }
}

struct Built {
    builder: ModelBuilder,
    handles: IndexMap<String, Var>,
    objective_expr: Option<Expr>,
}

/// order = position of the objective call among the constraint calls; split = how many leading
/// constraints go through `with` (the rest through one `with_all`)
fn build(m: &SrcModel, order: usize, split: usize, explicit_satisfy: bool, extra_unused: bool) -> Built {
    build_s(m, order, split, explicit_satisfy, extra_unused, 0)
}

fn build_s(m: &SrcModel, order: usize, split: usize, explicit_satisfy: bool, extra_unused: bool, sp: usize) -> Built {
    let mut b = ModelBuilder::new();
    let mut handles = IndexMap::new();
    for (n, d) in &m.vars {
        handles.insert(n.clone(), b.add_var(n.clone(), d.to_vt()));
    }
    if extra_unused {
        handles.insert("unused_u".to_string(), b.add_var("unused_u", Dom::Real(1.5, 2.5).to_vt()));
        handles.insert("unused_k".to_string(), b.add_var("unused_k", Dom::Int(2, 4).to_vt()));
    }
    let cons: Vec<BuilderConstraint> = m
        .cons
        .iter()
        .map(|c| if c.bare { BuilderConstraint::new_logic_assertion(to_builder_s(&c.lhs, &handles, sp), c.name.clone()) } else { BuilderConstraint::new(to_builder_s(&c.lhs, &handles, sp), crate::lm::rel_to_cmp(c.rel), to_builder_s(&c.rhs, &handles, sp), c.name.clone()) })
        .collect();
    let objective_expr = if m.sense == Sense::Satisfy { None } else { Some(to_builder_s(&m.obj, &handles, sp)) };
    let set_obj = |b: ModelBuilder| match (&objective_expr, m.sense) {
        (Some(e), Sense::Min) => b.minimize(e.clone()),
        (Some(e), Sense::Max) => b.maximize(e.clone()),
        _ => {
            if explicit_satisfy {
                b.satisfy()
            } else {
                b
            }
        }
    };
    // "overrides any objective set earlier": in the builds that also declare unused variables a decoy objective
    // (with a block, so that a stale one would leave auxiliaries behind) is set first whenever a real call follows
    if extra_unused && (m.sense != Sense::Satisfy || explicit_satisfy) {
        if let Some((first, _)) = m.vars.first() {
            let decoy = bin(BinOp::Add, Exp::Abs(Box::new(bin(BinOp::Sub, var(first), num(1.0)))), num(7.0));
            b = b.maximize(to_builder_s(&decoy, &handles, 0));
        }
    }
    let k = cons.len();
    let order = order.min(k);
    let split = split.min(k);
    let mut done_obj = false;
    for (i, c) in cons.iter().enumerate().take(split) {
        if i == order {
            b = set_obj(b);
            done_obj = true;
        }
        b = b.with(c.clone());
    }
    if !done_obj && order <= split {
        b = set_obj(b);
        done_obj = true;
    }
    if split < k {
        b = b.with_all(cons[split..].iter().cloned());
    }
    if !done_obj {
        b = set_obj(b);
    }
    Built { builder: b, handles, objective_expr }
}

fn compile_text(src: &str, consts: Vec<Constant>) -> Result<LinearModel, String> {
    let m = RoocParser::new(src.to_string()).parse_and_transform(consts, &IndexMap::new()).map_err(|e| format!("transform: {}", e.lines().next().unwrap_or("")))?;
    Linearizer::linearize(m).map_err(|e| format!("linearize: {e}"))
}

fn verdict<T>(r: &Result<T, String>) -> String {
    match r {
        Ok(_) => "solution".into(),
        Err(e) => e.clone(),
    }
}

fn check_case(case: &Case, l: &mut Local) {
    let m0 = &case.model;
    // rows get names so that name handling is exercised on every door
    let mut m = m0.clone();
    for (i, c) in m.cons.iter_mut().enumerate() {
        c.name = format!("row_{i}");
    }
    let m = &m;
    let sig = |k: &str| format!("{k}:{}", case.signature);
    let text_inline = render_for_c16(m, Style16::Inline);
    let (text_api, api_consts) = {
        let (t, cs) = crate::props::c03::render_with_api_constants(m);
        (t, cs)
    };
    let case_json = |what: String| json!({"model": m.show(), "text": text_inline, "text_with_api_constants": text_api, "what": what});
    l.sample(|| case_json("sample".into()));
    // ---- door: text (inline constants) is the reference compilation
    let lm_text = crate::core::catch(|| compile_text(&text_inline, vec![])).unwrap_or_else(|p| Err(format!("panic: {p}")));
    // ---- door: text with constants through the API
    let consts: Vec<Constant> = api_consts.iter().map(|(n, v)| Constant::from_primitive(n, Primitive::Number(*v))).collect();
    let lm_api = crate::core::catch(|| compile_text(&text_api, consts.clone())).unwrap_or_else(|p| Err(format!("panic: {p}")));
    match (&lm_text, &lm_api) {
        (Ok(a), Ok(b)) => {
            l.count("compared:text-vs-api-constants");
            if let Some(d) = lm_diff(a, b) {
                l.violation(sig("api-constants-differ-from-inline"), d.clone(), case_json(d));
            }
        }
        (Err(a), Err(b)) => {
            if a.split(':').next() != b.split(':').next() {
                l.violation(sig("api-constants-different-error"), format!("{a} vs {b}"), case_json(format!("{a} vs {b}")));
            }
        }
        (a, b) => l.violation(sig("api-constants-only-one-compiles"), format!("inline: {} / api: {}", verdict(&a.as_ref().map(|_| ()).map_err(|e| e.clone())), verdict(&b.as_ref().map(|_| ()).map_err(|e| e.clone()))), case_json("one door rejects".into())),
    }
    // ---- door: builder, every call order
    let k = m.cons.len();
    let mut builder_lms: Vec<(String, Result<LinearModel, String>)> = vec![];
    for order in 0..=k {
        for split in 0..=k {
            for explicit in [false, true] {
                if m.sense != Sense::Satisfy && explicit {
                    continue;
                }
                for unused in [false, true] {
                    let b = build(m, order, split, explicit, unused);
                    let lm = crate::core::catch(|| b.builder.clone().linearize().map_err(|e| format!("linearize: {e}"))).unwrap_or_else(|p| Err(format!("panic: {p}")));
                    l.count("builder_call_orders");
                    builder_lms.push((format!("objective@{order} with:{split} with_all:{} explicit_satisfy:{explicit} unused:{unused}", k - split), lm));
                }
            }
        }
    }
    // the same model through the typed operator overloads (i32 / f64 / Var / bool / &Expr operands)
    for sp in 1..=2 {
        let b = build_s(m, k, k, false, false, sp);
        let lm = crate::core::catch(|| b.builder.clone().linearize().map_err(|e| format!("linearize: {e}"))).unwrap_or_else(|p| Err(format!("panic: {p}")));
        l.count("builder_operand_spellings");
        builder_lms.push((format!("operand spelling {sp} (typed overloads)"), lm));
    }
    for (desc, blm) in &builder_lms {
        match (blm, &lm_text) {
            (Ok(b), Ok(t)) => {
                // a feasibility model carries no costs through any door (the constant itself differs: `solve`
                // is the constant true in the text, 0 in the builder)
                if m.sense == Sense::Satisfy && (b.objective().iter().any(|c| *c != 0.0) != t.objective().iter().any(|c| *c != 0.0)) {
                    let d = format!("objective row of the satisfy model: builder {:?}, text {:?}", b.objective(), t.objective());
                    l.violation(sig("builder-differs-from-text"), format!("[{desc}] {d}"), case_json(format!("{desc}: {d}")));
                    return;
                }
                if let Some(d) = lm_diff_modulo_unused_pub(b, t) {
                    l.violation(sig("builder-differs-from-text"), format!("[{desc}] {d}"), case_json(format!("{desc}: {d}")));
                    return;
                }
            }
            (Err(a), Err(b)) => {
                if a.split(':').next() != b.split(':').next() {
                    l.violation(sig("builder-different-error"), format!("[{desc}] {a} vs {b}"), case_json(desc.clone()));
                    return;
                }
            }
            (a, b) => {
                l.violation(sig("builder-and-text-disagree-on-acceptance"), format!("[{desc}] builder: {} / text: {}", a.as_ref().map(|_| "compiles".to_string()).unwrap_or_else(|e| e.clone()), b.as_ref().map(|_| "compiles".to_string()).unwrap_or_else(|e| e.clone())), case_json(desc.clone()));
                return;
            }
        }
    }
    l.count("models_with_agreeing_compilations");
    let Ok(lm_t) = &lm_text else {
        l.count("rejected-by-every-door");
        return;
    };
    l.nontrivial(&text_inline);
    // ---- solving through every door
    let fns = IndexMap::new();
    let direct = rooc::auto_solver(lm_t).map_err(|e| format!("{e}"));
    let one_shot = crate::core::catch(|| RoocSolver::try_new(text_inline.clone()).map_err(|e| format!("{:?}", e)).and_then(|s| s.solve_using(rooc::auto_solver).map_err(|e| format!("{e}")))).unwrap_or_else(|p| Err(format!("panic: {p}")));
    let pipe = |auto: bool| -> Result<(Vec<PipeableData>, rooc::LpSolution<rooc::MILPValue>), String> {
        let runner = PipeRunner::new(vec![
            Box::new(CompilerPipe::new()),
            Box::new(PreModelPipe::new()),
            Box::new(ModelPipe::new()),
            Box::new(LinearModelPipe::new()),
            if auto { Box::new(AutoSolverPipe::new()) } else { Box::new(MILPSolverPipe::new()) },
        ]);
        let ctx = PipeContext::new(vec![], &fns);
        match runner.run(PipeableData::String(text_inline.clone()), &ctx) {
            Ok(stages) => {
                let sol = stages.last().cloned().unwrap().to_milp_solution().map_err(|e| format!("{e}"))?;
                Ok((stages, sol))
            }
            Err((e, _)) => Err(format!("{e}")),
        }
    };
    let pipe_milp = crate::core::catch(|| pipe(false)).unwrap_or_else(|p| Err(format!("panic: {p}")));
    let pipe_auto = crate::core::catch(|| pipe(true)).unwrap_or_else(|p| Err(format!("panic: {p}")));
    // continuous models also go through the real-solver pipe (Clarabel) and the
    // standard form > tableau > step-by-step simplex pipes
    let continuous = lm_t.domain().values().all(|v| matches!(v.get_type(), rooc::VariableType::Real(_, _) | rooc::VariableType::NonNegativeReal(_, _))) && !lm_t.domain().is_empty();
    let declared_names: Vec<String> = m.vars.iter().map(|v| v.0.clone()).filter(|n| lm_t.variables().contains(n)).collect();
    let pipe_real = |simplex: bool| -> Result<(f64, Vec<(String, Option<f64>)>), String> {
        let mut pipes: Vec<Box<dyn rooc::pipe::Pipeable>> = vec![Box::new(CompilerPipe::new()), Box::new(PreModelPipe::new()), Box::new(ModelPipe::new()), Box::new(LinearModelPipe::new())];
        if simplex {
            pipes.push(Box::new(rooc::pipe::StandardLinearModelPipe::new()));
            pipes.push(Box::new(rooc::pipe::TableauPipe::new()));
            pipes.push(Box::new(rooc::pipe::StepByStepSimplexPipe::new()));
        } else {
            pipes.push(Box::new(rooc::pipe::RealSolver::new()));
        }
        let runner = PipeRunner::new(pipes);
        let ctx = PipeContext::new(vec![], &fns);
        match runner.run(PipeableData::String(text_inline.clone()), &ctx) {
            Ok(stages) => {
                let last = stages.last().cloned().unwrap();
                let named = |s: &rooc::LpSolution<f64>| (s.value(), declared_names.iter().map(|n| (n.clone(), s.value_of(n))).collect::<Vec<_>>());
                if simplex {
                    last.to_optimal_tableau_with_steps().map(|t| named(&t.result().as_lp_solution())).map_err(|e| format!("{e}"))
                } else {
                    last.to_real_solution().map(|s| named(&s)).map_err(|e| format!("{e}"))
                }
            }
            Err((e, _)) => Err(format!("{e}")),
        }
    };
    let (pipe_clarabel, pipe_simplex) = if continuous && m.sense != Sense::Satisfy {
        l.count("continuous_models_through_real_pipes");
        (Some(crate::core::catch(|| pipe_real(false)).unwrap_or_else(|p| Err(format!("panic: {p}")))), Some(crate::core::catch(|| pipe_real(true)).unwrap_or_else(|p| Err(format!("panic: {p}")))))
    } else {
        (None, None)
    };
    let b0 = build(m, 0, k, false, true);
    let built = crate::core::catch(|| b0.builder.clone().solve_with(Auto).map_err(|e| format!("{e}"))).unwrap_or_else(|p| Err(format!("panic: {p}")));
    let values: Vec<(&str, Result<f64, String>)> = vec![
        ("auto_solver", direct.as_ref().map(|s| s.value()).map_err(|e| e.clone())),
        ("RoocSolver", one_shot.as_ref().map(|s| s.value()).map_err(|e| e.clone())),
        ("pipe-milp", pipe_milp.as_ref().map(|s| s.1.value()).map_err(|e| e.clone())),
        ("pipe-auto", pipe_auto.as_ref().map(|s| s.1.value()).map_err(|e| e.clone())),
        ("builder", built.as_ref().map(|s| s.value()).map_err(|e| e.clone())),
    ];
    let mut values = values;
    // values read back by variable name through every door: each declared variable of the compiled model has a
    // value, inside its declared domain, and the source rows hold at those values
    let mut named_doors: Vec<(&str, Vec<(String, Option<f64>)>)> = vec![];
    let milp_named = |s: &rooc::LpSolution<rooc::MILPValue>| declared_names.iter().map(|n| (n.clone(), s.value_of(n).map(f64::from))).collect::<Vec<_>>();
    if let Ok(s) = &direct {
        named_doors.push(("auto_solver", milp_named(s)));
    }
    if let Ok(s) = &one_shot {
        named_doors.push(("RoocSolver", milp_named(s)));
    }
    if let Ok(s) = &pipe_milp {
        named_doors.push(("pipe-milp", milp_named(&s.1)));
    }
    if let Ok(s) = &pipe_auto {
        named_doors.push(("pipe-auto", milp_named(&s.1)));
    }
    if let Some(Ok(v)) = &pipe_clarabel {
        named_doors.push(("pipe-real-solver", v.1.clone()));
    }
    if let Some(Ok(v)) = &pipe_simplex {
        named_doors.push(("pipe-step-by-step-simplex", v.1.clone()));
    }
    // the one-shot slow-simplex entry point shares the tableau read-back
    if continuous && m.sense != Sense::Satisfy {
        if let Ok(Ok(s)) = crate::core::catch(|| rooc::solve_real_lp_problem_slow_simplex(lm_t, 10000)) {
            named_doors.push(("solve_real_lp_problem_slow_simplex", declared_names.iter().map(|n| (n.clone(), s.value_of(n))).collect()));
        }
    }
    for (door, named) in &named_doors {
        l.count("doors_read_back_by_name");
        let mut env = Env::new();
        let mut complete = true;
        for (name, v) in named {
            let dom = m.vars.iter().find(|x| &x.0 == name).unwrap().1.clone();
            match v {
                None => {
                    complete = false;
                    l.violation(sig("declared-variable-has-no-value-by-name"), format!("[{door}] {name} has no value in the returned solution"), case_json(format!("{door}: {name}")));
                }
                Some(v) => {
                    let (lo, hi) = dom.bounds();
                    if !(*v >= lo - 1e-6 && *v <= hi + 1e-6) || (dom.is_int() && (v - v.round()).abs() > 1e-6) {
                        l.violation(sig("named-value-outside-domain"), format!("[{door}] {name} = {v} is outside {}", dom.show()), case_json(format!("{door}: {name}")));
                    }
                    env.insert(name.clone(), qf(if dom.is_int() { v.round() } else { *v }));
                }
            }
        }
        if !complete {
            break;
        }
        if declared_names.len() == m.vars.len() {
            for (ci, c) in m.cons.iter().enumerate() {
                if let (Ok(a), Ok(b)) = (eval(&c.lhs, &env), eval(&c.rhs, &env)) {
                    let d = to_f64(&(a - b));
                    let holds = match c.rel {
                        Rel::Le => d <= 1e-5,
                        Rel::Ge => d >= -1e-5,
                        Rel::Eq => d.abs() <= 1e-5,
                    };
                    l.count("rows_checked_at_named_values");
                    if !holds {
                        l.violation(sig("named-values-violate-a-source-row"), format!("[{door}] row_{ci} does not hold at the values read back by name"), case_json(format!("{door}: row_{ci}")));
                    }
                }
            }
        }
    }
    let pipe_clarabel = pipe_clarabel.map(|r| r.map(|v| v.0));
    let pipe_simplex = pipe_simplex.map(|r| r.map(|v| v.0));
    if let Some(v) = pipe_clarabel {
        values.push(("pipe-real-solver", v));
    }
    if let Some(v) = pipe_simplex {
        values.push(("pipe-step-by-step-simplex", v));
    }
    let reference = &values[0].1;
    for (door, v) in &values[1..] {
        l.count("verdicts_compared");
        match (reference, v) {
            (Ok(a), Ok(b)) => {
                if m.sense != Sense::Satisfy && (a - b).abs() > 1e-6 * a.abs().max(1.0) {
                    l.violation(sig("doors-disagree-on-optimal-value"), format!("auto_solver: {a}, {door}: {b}"), case_json(format!("{door}")));
                }
            }
            (Err(a), Err(b)) => {
                // the message of the same verdict
                // the same verdict is worded differently by different doors
                let class = |e: &str| if e.contains("nfeasible") || e.contains("nfesible") { "infeasible".to_string() } else if e.contains("nbounded") { "unbounded".to_string() } else { e.to_string() };
                if class(a) != class(b) {
                    l.violation(sig("doors-disagree-on-error"), format!("auto_solver: {a}, {door}: {b}"), case_json(format!("{door}")));
                }
            }
            (a, b) => l.violation(sig("doors-disagree-on-verdict"), format!("auto_solver: {:?}, {door}: {:?}", a.as_ref().map(|v| v.to_string()), b.as_ref().map(|v| v.to_string())), case_json(format!("{door}"))),
        }
    }
    // ---- pipe stage outputs equal the direct calls
    if let Ok((stages, _)) = &pipe_milp {
        let parser = RoocParser::new(text_inline.clone());
        let direct_model = parser.parse_and_transform(vec![], &fns).ok();
        for st in stages {
            match st {
                PipeableData::Model(pm) => {
                    if Some(pm.to_string()) != direct_model.as_ref().map(|d| d.to_string()) {
                        l.violation(sig("pipe-model-stage-differs"), "the Model produced by the pipe differs from parse_and_transform", case_json("model stage".into()));
                    }
                }
                PipeableData::LinearModel(plm) => {
                    if let Some(d) = lm_diff(plm, lm_t) {
                        l.violation(sig("pipe-linear-stage-differs"), d.clone(), case_json(d));
                    }
                }
                PipeableData::PreModel(pp) => {
                    if parser.parse().map(|p| p.to_string()).ok() != Some(pp.to_string()) {
                        l.violation(sig("pipe-premodel-stage-differs"), "the PreModel produced by the pipe differs from parse()", case_json("premodel stage".into()));
                    }
                }
                _ => {}
            }
        }
        l.count("pipe_stages_compared");
    }
    // ---- value read-back through handles, names and eval
    if let Ok(sol) = &built {
        let mut env = Env::new();
        for (name, h) in &b0.handles {
            let a = sol.var_value(*h).map(f64::from);
            let b = sol.numeric_value(*h);
            let c = sol.solution().value_of(name).map(f64::from);
            l.count("handles_read_back");
            if a.is_none() || a != b || a != c {
                l.violation(sig("handle-name-readback-differs"), format!("{name}: var_value {:?}, numeric_value {:?}, value_of {:?}", a, b, c), case_json(name.clone()));
                return;
            }
            let v = a.unwrap();
            // inside the declared domain (also for unused variables)
            let dom = if name == "unused_u" { Dom::Real(1.5, 2.5) } else if name == "unused_k" { Dom::Int(2, 4) } else { m.vars.iter().find(|x| &x.0 == name).unwrap().1.clone() };
            let (lo, hi) = dom.bounds();
            if !(v >= lo - 1e-6 && v <= hi + 1e-6) || (dom.is_int() && (v - v.round()).abs() > 1e-6) {
                l.violation(sig("readback-value-outside-domain"), format!("{name} = {v} is outside {}", dom.show()), case_json(name.clone()));
            }
            env.insert(name.clone(), qf(if dom.is_int() { v.round() } else { v }));
        }
        // eval(expr) equals the reference semantics at the returned assignment
        let mut exprs: Vec<(String, Exp)> = vec![];
        if m.sense != Sense::Satisfy {
            exprs.push(("objective".into(), m.obj.clone()));
        }
        for (i, c) in m.cons.iter().enumerate() {
            exprs.push((format!("lhs of row_{i}"), c.lhs.clone()));
        }
        for (what, e) in exprs {
            let be = to_builder(&e, &b0.handles);
            let got = sol.eval(&be);
            for sp in 1..=2 {
                let alt = sol.eval(&to_builder_s(&e, &b0.handles, sp));
                if alt.to_bits() != got.to_bits() && !(alt.is_nan() && got.is_nan()) {
                    l.violation(sig("eval-differs-between-operand-spellings"), format!("{what}: eval gives {got} for Expr operands and {alt} for typed operands (spelling {sp})"), case_json(what.clone()));
                }
            }
            if let Ok(want) = eval(&e, &env) {
                let w = to_f64(&want);
                l.count("evals_compared");
                if (got - w).abs() > 1e-6 * w.abs().max(1.0) {
                    l.violation(sig("eval-differs-from-language-semantics"), format!("{what}: eval gives {got}, the language semantics gives {w}"), case_json(what.clone()));
                }
            }
        }
        if let (Some(oe), true) = (&b0.objective_expr, m.sense != Sense::Satisfy) {
            let got = sol.eval(oe);
            if (got - sol.value()).abs() > 1e-6 * got.abs().max(1.0) {
                l.violation(sig("eval-of-objective-differs-from-reported-value"), format!("eval(objective) = {got}, value() = {}", sol.value()), case_json("objective".into()));
            }
        }
    }
}

// ---- constants at the edges of the number kinds, written in the text or supplied through the API
const API_VALUES: [f64; 12] = [1e19, -1e19, 9.3e18, 1.8446744073709552e19, 9007199254740992.0, 4294967296.0, 3.0, -2.0, 0.5, -0.0, 1e-7, 123456789.125];
const API_TEMPLATES: [(&str, &str); 5] = [
    ("where-constant-derived-from-it", "min x\ns.t.\n    x + y >= D\n    x <= 7\nwhere\n    let D = 2 * K + 1\n"),
    ("coefficient", "min x\ns.t.\n    K * x + y >= 1\n    x <= 7\n"),
    ("right-hand-side", "min x + y\ns.t.\n    x + y >= K\n"),
    ("divisor-and-offset", "max x / K + K\ns.t.\n    x + y <= 3\n"),
    ("block-operand", "min max { x, K }\ns.t.\n    x + y >= 1\n"),
];
fn api_constant_case(i: u64, l: &mut Local) {
    let (tname, body) = API_TEMPLATES[i as usize / API_VALUES.len()];
    let v = API_VALUES[i as usize % API_VALUES.len()];
    // plain decimal literal; a whole value keeps a fractional part so that both doors see a Number
    let mut lit = format!("{}", v.abs());
    if !lit.contains('.') {
        lit.push_str(".0");
    }
    let lit = if v.is_sign_negative() { format!("0 - {lit}") } else { lit };
    let define = "define\n    x as Real(0, 9)\n    y as Real(0, 9)\n".replace("\\n", "\n");
    // a template with its own where section gets K as its first constant
    let inline = if body.contains("where\n") { format!("{}{define}", body.replace("where\n", &format!("where\n    let K = {lit}\n"))) } else { format!("{body}where\n    let K = {lit}\n{define}") };
    let api = format!("{body}{define}");
    let case = |what: String| json!({"template": tname, "value": v, "text_inline": inline, "text_api": api, "what": what});
    let a = crate::core::catch(|| compile_text(&inline, vec![])).unwrap_or_else(|p| Err(format!("panic: {p}")));
    let b = crate::core::catch(|| compile_text(&api, vec![Constant::from_primitive("K", Primitive::Number(v))])).unwrap_or_else(|p| Err(format!("panic: {p}")));
    l.count("api_constant_extremes");
    l.nontrivial(&(tname, v.to_bits()));
    match (&a, &b) {
        (Ok(x), Ok(y)) => {
            if let Some(d) = lm_diff(x, y) {
                l.violation(format!("api-constant-extreme-differs-from-inline:{tname}"), format!("K = {v}: {d}"), case(d.clone()));
            }
        }
        (Err(x), Err(y)) => {
            if x.split(':').next() != y.split(':').next() {
                l.violation(format!("api-constant-extreme-different-error:{tname}"), format!("K = {v}: {x} vs {y}"), case(format!("{x} vs {y}")));
            }
        }
        (x, y) => l.violation(format!("api-constant-extreme-only-one-compiles:{tname}"), format!("K = {v}: inline {} / api {}", verdict(&x.as_ref().map(|_| ()).map_err(|e| e.clone())), verdict(&y.as_ref().map(|_| ()).map_err(|e| e.clone()))), case("one door rejects".into())),
    }
}

// ---- macro spellings: compiled-in models, compared with their text twins
fn macro_models(l: &mut Local) {
    use rooc::{Comparison, VariableType, constraint, expr, vars};
    let _ = Comparison::Equal;
    let _ = VariableType::Boolean;
    let mut checks: Vec<(&str, ModelBuilder, &str)> = vec![];
    {
        let mut model = ModelBuilder::new();
        vars! { model => x: real(-3.0, 3.0); y: nonneg(0.0, 4.0); b: bool; k: int(-2, 2); };
        let mb = model
            .maximize(expr!(2.0 * x + y - 3.0 * b + k))
            .with(constraint!(cap: x + y <= 4.0))
            .with(constraint!(low: x - y >= -2.5))
            .with(constraint!(tie: k + b <= 2.0));
        checks.push(("macro-arith", mb, "max 2 * x + y - 3 * b + k\ns.t.\n    cap: x + y <= 4\n    low: x - y >= -2.5\n    tie: k + b <= 2\ndefine\n    x as Real(-3, 3)\n    y as NonNegativeReal(0, 4)\n    b as Boolean\n    k as IntegerRange(-2, 2)\n"));
    }
    {
        let mut model = ModelBuilder::new();
        vars! { model => a: bool; b: bool; c: bool; };
        let mb = model.minimize(expr!(a + b + c)).with(constraint!(imp: a -> b)).with(constraint!(cover: a + c >= 1.0));
        checks.push(("macro-logic", mb, "min a + b + c\ns.t.\n    imp: a implies b\n    cover: a + c >= 1\ndefine\n    a, b, c as Boolean\n"));
    }
    // ---- one model per macro rule: every relation and logic form of constraint!, labelled and
    // unlabelled; expr! with -> and <->; every scalar and array declaration form of vars!
    {
        let mut model = ModelBuilder::new();
        vars! { model => a: bool; b: bool; c: bool; x: real(-3.0, 3.0); y: nonneg(0.0, 4.0); k: int(-2, 2); };
        let mb = model
            .maximize(expr!(b - 2.0 * a + x + y + k - c))
            .with(constraint!(a <-> b))
            .with(constraint!(l_iff: c <-> !a))
            .with(constraint!(c -> a | b))
            .with(constraint!(l_imp: a -> c))
            .with(constraint!(x + y <= 4.0))
            .with(constraint!(l_le: x - y <= 2.5))
            .with(constraint!(x + k >= -3.0))
            .with(constraint!(l_ge: y + k >= -1.0))
            .with(constraint!(x + y + k == 1.5))
            .with(constraint!(a | b | c))
            .with(constraint!(l_base: !(a & c)));
        checks.push((
            "macro-every-constraint-rule",
            mb,
            "max b - 2 * a + x + y + k - c\ns.t.\n    a iff b\n    l_iff: c iff not a\n    c implies (a or b)\n    l_imp: a implies c\n    x + y <= 4\n    l_le: x - y <= 2.5\n    x + k >= -3\n    l_ge: y + k >= -1\n    x + y + k = 1.5\n    (a or b) or c\n    l_base: not (a and c)\ndefine\n    a, b, c as Boolean\n    x as Real(-3, 3)\n    y as NonNegativeReal(0, 4)\n    k as IntegerRange(-2, 2)\n",
        ));
    }
    {
        let mut model = ModelBuilder::new();
        vars! { model => a: bool; b: bool; c: bool; };
        let mb = model.maximize(expr!(a -> b) + expr!(b <-> c) - Expr::from(a)).with(constraint!(a | c));
        checks.push(("macro-expr-implies-iff", mb, "max (a implies b) + (b iff c) - a\ns.t.\n    a or c\ndefine\n    a, b, c as Boolean\n"));
    }
    {
        let mut model = ModelBuilder::new();
        vars! { model => p: real; q: nonneg; r: real(-1.0, 2.0); s: nonneg(1.0, 3.0); t: int(-1, 1); u: bool;
            pa[2]: bool; qa[2]: real(-1.0, 1.0); ra[2]: real; sa[2]: nonneg(0.0, 2.0); ta[2]: nonneg; ua[2]: int(0, 3); };
        let total = rooc::builder::sum(pa.iter().chain(qa.iter()).chain(ra.iter()).chain(sa.iter()).chain(ta.iter()).chain(ua.iter()).cloned());
        let mb = model
            .minimize(p + q + r + s + t + u + total)
            .with(constraint!(lo_p: p >= -2.0))
            .with(constraint!(lo_ra0: ra[0] >= -1.5))
            .with(constraint!(lo_ra1: ra[1] - ta[1] >= -0.5))
            .with(constraint!(up_ta0: ta[0] + q <= 7.0));
        checks.push((
            "macro-every-vars-form",
            mb,
            "min p + q + r + s + t + u + pa_0 + pa_1 + qa_0 + qa_1 + ra_0 + ra_1 + sa_0 + sa_1 + ta_0 + ta_1 + ua_0 + ua_1\ns.t.\n    lo_p: p >= -2\n    lo_ra0: ra_0 >= -1.5\n    lo_ra1: ra_1 - ta_1 >= -0.5\n    up_ta0: ta_0 + q <= 7\ndefine\n    p as Real\n    q as NonNegativeReal\n    r as Real(-1, 2)\n    s as NonNegativeReal(1, 3)\n    t as IntegerRange(-1, 1)\n    u as Boolean\n    pa_0, pa_1 as Boolean\n    qa_0, qa_1 as Real(-1, 1)\n    ra_0, ra_1 as Real\n    sa_0, sa_1 as NonNegativeReal(0, 2)\n    ta_0, ta_1 as NonNegativeReal\n    ua_0, ua_1 as IntegerRange(0, 3)\n",
        ));
    }
    {
        // several constraints that carry the same name (a name mapped over a family of variables): every one
        // of them is a row, in both doors
        let mut model = ModelBuilder::new();
        vars! { model => v[3]: nonneg(0.0, 9.0); };
        let caps: Vec<BuilderConstraint> = v.iter().enumerate().map(|(i, h)| BuilderConstraint::new(Expr::from(*h), rooc::Comparison::LessOrEqual, Expr::from((i + 1) as f64), "cap".to_string())).collect();
        let mb = model.maximize(rooc::builder::sum(v.iter().cloned())).with(caps[0].clone()).with_all(caps[1..].iter().cloned()).with(constraint!(cap: v[0] + v[1] <= 2.5));
        checks.push(("duplicate-constraint-names", mb, "max v_0 + v_1 + v_2\ns.t.\n    cap: v_0 <= 1\n    cap: v_1 <= 2\n    cap: v_2 <= 3\n    cap: v_0 + v_1 <= 2.5\ndefine\n    v_0, v_1, v_2 as NonNegativeReal(0, 9)\n"));
    }
    {
        // strict relations: rules 4 and 5 (no solver accepts them; the linear models must agree)
        let mut model = ModelBuilder::new();
        vars! { model => x: real(-3.0, 3.0); y: nonneg(0.0, 4.0); };
        let mb = model.minimize(x + y).with(constraint!(x + y < 4.0)).with(constraint!(s_gt: x - y > -2.5));
        checks.push(("macro-strict-relations", mb, "min x + y\ns.t.\n    x + y < 4\n    s_gt: x - y > -2.5\ndefine\n    x as Real(-3, 3)\n    y as NonNegativeReal(0, 4)\n"));
    }
    for (name, mb, text) in checks {
        l.count("macro_models");
        let a = mb.clone().linearize().map_err(|e| e.to_string());
        let b = compile_text(text, vec![]);
        match (a, b) {
            (Ok(a), Ok(b)) => {
                if let Some(d) = lm_diff_modulo_unused_pub(&a, &b) {
                    l.violation(format!("macro-differs-from-text:{name}"), d.clone(), json!({"text": text, "what": d}));
                }
                // same verdict and optimal value through the builder and through the text
                let va = mb.clone().solve_with(Auto).map(|s| s.value()).map_err(|e| e.to_string());
                let vb = rooc::auto_solver(&b).map(|s| s.value()).map_err(|e| e.to_string());
                let same = match (&va, &vb) {
                    (Ok(p), Ok(q)) => (p - q).abs() <= 1e-6 * q.abs().max(1.0),
                    (Err(_), Err(_)) => true,
                    _ => false,
                };
                if !same {
                    l.violation(format!("macro-answer-differs-from-text:{name}"), format!("builder: {:?}, text: {:?}", va, vb), json!({"text": text}));
                }
            }
            (a, b) => l.violation(format!("macro-or-text-rejected:{name}"), format!("{:?} / {:?}", a.err(), b.err()), json!({"text": text})),
        }
    }
}

pub fn run(mut run: Run) -> ! {
    crate::core::silence_panics();
    run.isolate = true;
    run.case_timeout_s = 60.0;
    let quick = run.quick();
    let depth = if quick { 1 } else { 2 };
    run.rule = "generator-AST models (objective family and constraint family of C02/C01 over bounded declarations, objectives over three variables with different ranges, every row named) are expressed through: the fluent builder via operator overloads and helper functions (three operand spellings: Expr op Expr only; the most specific overload per operand pair over i32/f64 literals, Var handles, bool and helper functions over Var items; f64-only literals with Expr op &Expr) with EVERY call order (objective at each of the k+1 positions, every split of the constraints between with and with_all, satisfy explicit or defaulted, with and without two declared-but-unused variables and a decoy objective that the real objective call has to override), source text with inline constants, source text with the constants supplied through the API, PipeRunner chains (Compiler>PreModel>Model>LinearModel>MILP and >Auto; for continuous models also >RealSolver and >StandardLinearModel>Tableau>StepByStepSimplex), RoocSolver one-shot, plus 5 templates (one derives a where-constant from the supplied one) x 12 constants at the edges of the number kinds (1e19, 2^64, 2^53, 2^32, -0, 1e-7 ...) written in the text or supplied through the API, plus compiled-in macro models that use every rule of constraint! (<=, >=, ==, <, >, ->, <->, bare logic; labelled and unlabelled), expr! with -> and <->, and every scalar and array declaration form of vars!; linear models are compared row for row (modulo unused builder variables), verdicts and optimal values across doors, pipe stage outputs with direct calls, values read back by variable name through every solving door (each declared variable has a value inside its domain and the source rows hold there), and values read back through handles, names and eval with the reference semantics; distinct = source texts; non-trivial = compiles".into();
    run.assume("identical expression trees must give identical linear models; the builder keeps unused variables, which are projected away; tolerance 1e-6 on optimal values and read-back");
    // the quick tier uses the full declaration / constant menus at context depth 1
    let n2 = c02::family_size_pub(depth, false);
    let stride2 = 1;
    run.family("O-objective-models", n2 / stride2, move |i, l| check_case(&c02::family_pub(i * stride2, depth, false), l));
    let na = family_a_size(depth, false);
    let stride = 1;
    run.family("A-constraint-models", na / stride, move |i, l| {
        let mut c = family_a(i * stride, depth, false);
        let ok = c.model.vars.iter().all(|v| {
            let (lo, hi) = v.1.bounds();
            lo.is_finite() && hi.is_finite()
        });
        if !ok {
            l.count("skipped:unbounded-declaration");
            return;
        }
        if i % 2 == 0 {
            c.model.sense = Sense::Max;
            c.model.obj = var("x");
        }
        check_case(&c, l);
    });
    let ddepth = if quick { 0 } else { 1 };
    run.family("D-objectives-over-several-continuous-variables", c02::family_d_size(ddepth), move |i, l| check_case(&c02::family_d(i, ddepth), l));
    run.family("M-macro-spellings", 1, |_, l| macro_models(l));
    run.family("K-api-constant-extremes", (API_TEMPLATES.len() * API_VALUES.len()) as u64, api_constant_case);
    for k in ["builder_call_orders", "models_with_agreeing_compilations", "verdicts_compared", "handles_read_back", "evals_compared", "pipe_stages_compared", "macro_models"] {
        run.require(k);
    }
    run.finish()
}
