//! C06 — data-driven constructs expand exactly.
//! A generator AST is printed twice: with the language's iteration/aggregation constructs (program P)
//! and fully unrolled by an independent reference unroller (program U). Both are compiled by rooc and
//! the linear models must be identical row for row.
use crate::core::{Local, Run};
use crate::lm::LmSpec;
use indexmap::IndexMap;
use rooc::{LinearModel, Linearizer, RoocParser};
use serde_json::json;
use std::collections::BTreeMap;

#[derive(Clone, Debug)]
enum Val {
    Num(f64),
    Str(String),
    Arr(Vec<f64>),
}
impl Val {
    fn num(&self) -> f64 {
        match self {
            Val::Num(n) => *n,
            Val::Str(_) | Val::Arr(_) => f64::NAN,
        }
    }
    fn index_text(&self) -> String {
        match self {
            Val::Num(n) => fmt_num(*n),
            Val::Str(s) => s.clone(),
            Val::Arr(_) => "<array>".into(),
        }
    }
}
fn fmt_num(n: f64) -> String {
    format!("{}", n)
}

/// data expressions (evaluated at unroll time)
#[derive(Clone, Debug)]
enum I {
    Lit(f64),
    Var(&'static str),
    Acc(&'static str, Vec<I>),
    Len(&'static str),
    /// length of an array bound by an iteration (a row of a matrix)
    LenVar(&'static str),
    Add(Box<I>, Box<I>),
    Sub(Box<I>, Box<I>),
    Mul(Box<I>, Box<I>),
}
/// model expressions
#[derive(Clone, Debug)]
enum E {
    X(&'static str, Vec<I>),
    V(&'static str),
    K(I),
    Add(Box<E>, Box<E>),
    Sub(Box<E>, Box<E>),
    Mul(I, Box<E>),
    Agg(&'static str, Vec<It>, Box<E>),
}
#[derive(Clone, Debug)]
enum It {
    Range(&'static str, I, I, bool),
    In(&'static str, &'static str),
    Enum(&'static str, &'static str, &'static str),
    Zip(&'static str, &'static str, &'static str, &'static str),
    Edges(&'static str, &'static str, Option<&'static str>, &'static str),
    Nodes(&'static str, &'static str),
    NeighEdges(&'static str, &'static str, &'static str),
    NeighEdgesOf(&'static str, &'static str, &'static str, &'static str),
    SetOp(&'static str, &'static str, &'static str, &'static str),
    /// the rows of a matrix, each bound as an array
    Rows(&'static str, &'static str),
    /// the elements of an array bound by an outer iteration
    InVar(&'static str, &'static str),
    /// the elements of the row of a matrix selected by an index expression: `v in M[i]`
    InRow(&'static str, &'static str, I),
    /// `(v, k) in enumerate(M[i])`
    EnumRow(&'static str, &'static str, &'static str, I),
    /// `k in 0..len(M[i])`
    RangeLenRow(&'static str, &'static str, I),
}

#[derive(Clone, Debug, Default)]
struct Data {
    arrays: BTreeMap<&'static str, Vec<f64>>,
    matrices: BTreeMap<&'static str, Vec<Vec<f64>>>,
    graphs: BTreeMap<&'static str, Vec<(String, Vec<(String, Option<f64>)>)>>,
}

type Env = Vec<(&'static str, Val)>;
fn lookup<'a>(env: &'a Env, n: &str) -> Option<&'a Val> {
    env.iter().rev().find(|(k, _)| *k == n).map(|(_, v)| v)
}

impl I {
    fn text(&self) -> String {
        match self {
            I::Lit(n) => fmt_num(*n),
            I::Var(v) => v.to_string(),
            I::Acc(a, idx) => format!("{a}{}", idx.iter().map(|i| format!("[{}]", i.text())).collect::<String>()),
            I::Len(a) => format!("len({a})"),
            I::LenVar(a) => format!("len({a})"),
            I::Add(a, b) => format!("({} + {})", a.text(), b.text()),
            I::Sub(a, b) => format!("({} - {})", a.text(), b.text()),
            I::Mul(a, b) => format!("({} * {})", a.text(), b.text()),
        }
    }
    fn eval(&self, env: &Env, d: &Data) -> Result<Val, String> {
        Ok(match self {
            I::Lit(n) => Val::Num(*n),
            I::Var(v) => lookup(env, v).cloned().ok_or(format!("unbound {v}"))?,
            I::Acc(a, idx) => {
                let ix: Vec<f64> = idx.iter().map(|i| i.eval(env, d).map(|v| v.num())).collect::<Result<_, _>>()?;
                let at = |len: usize, i: f64| -> Result<usize, String> {
                    if i < 0.0 || i.fract() != 0.0 || i as usize >= len { Err("index out of range".into()) } else { Ok(i as usize) }
                };
                if let Some(arr) = d.arrays.get(a) {
                    if ix.len() != 1 {
                        return Err("bad access".into());
                    }
                    Val::Num(arr[at(arr.len(), ix[0])?])
                } else if let Some(m) = d.matrices.get(a) {
                    if ix.len() != 2 {
                        return Err("bad access".into());
                    }
                    let r = &m[at(m.len(), ix[0])?];
                    Val::Num(r[at(r.len(), ix[1])?])
                } else {
                    return Err(format!("unknown array {a}"));
                }
            }
            I::Len(a) => Val::Num(d.arrays.get(a).map(|v| v.len()).or(d.matrices.get(a).map(|m| m.len())).ok_or("unknown")? as f64),
            I::LenVar(a) => match lookup(env, a) {
                Some(Val::Arr(v)) => Val::Num(v.len() as f64),
                _ => return Err(format!("{a} is not a bound array")),
            },
            I::Add(a, b) => Val::Num(a.eval(env, d)?.num() + b.eval(env, d)?.num()),
            I::Sub(a, b) => Val::Num(a.eval(env, d)?.num() - b.eval(env, d)?.num()),
            I::Mul(a, b) => Val::Num(a.eval(env, d)?.num() * b.eval(env, d)?.num()),
        })
    }
}

impl It {
    fn text(&self) -> String {
        match self {
            It::Range(v, a, b, incl) => format!("{v} in {}{}{}", a.text(), if *incl { "..=" } else { ".." }, b.text()),
            It::In(v, a) => format!("{v} in {a}"),
            It::Enum(v, i, a) => format!("({v}, {i}) in enumerate({a})"),
            It::Zip(a, b, x, y) => format!("({a}, {b}) in zip({x}, {y})"),
            It::Edges(u, v, w, g) => match w {
                Some(w) => format!("({u}, {v}, {w}) in edges({g})"),
                None => format!("({u}, {v}) in edges({g})"),
            },
            It::Nodes(n, g) => format!("{n} in nodes({g})"),
            It::NeighEdges(u, v, n) => format!("({u}, {v}) in neigh_edges({n})"),
            It::NeighEdgesOf(u, v, name, g) => format!("({u}, {v}) in neigh_edges_of(\"{name}\", {g})"),
            It::SetOp(v, op, a, b) => format!("{v} in {op}({a}, {b})"),
            It::Rows(r, m) => format!("{r} in {m}"),
            It::InVar(v, r) => format!("{v} in {r}"),
            It::InRow(v, m, i) => format!("{v} in {m}[{}]", i.text()),
            It::EnumRow(v, k, m, i) => format!("({v}, {k}) in enumerate({m}[{}])", i.text()),
            It::RangeLenRow(k, m, i) => format!("{k} in 0..len({m}[{}])", i.text()),
        }
    }
    /// the reference iteration semantics: the bindings of each iteration, in order
    fn expand(&self, env: &Env, d: &Data) -> Result<Vec<Vec<(&'static str, Val)>>, String> {
        Ok(match self {
            It::Range(v, a, b, incl) => {
                let (a, b) = (a.eval(env, d)?.num(), b.eval(env, d)?.num());
                if a.fract() != 0.0 || b.fract() != 0.0 {
                    return Err("non-integer range".into());
                }
                let end = if *incl { b as i64 + 1 } else { b as i64 };
                (a as i64..end).map(|k| vec![(*v, Val::Num(k as f64))]).collect()
            }
            It::In(v, a) => d.arrays.get(a).ok_or("unknown array")?.iter().map(|x| vec![(*v, Val::Num(*x))]).collect(),
            It::Enum(v, i, a) => d.arrays.get(a).ok_or("unknown array")?.iter().enumerate().map(|(k, x)| vec![(*v, Val::Num(*x)), (*i, Val::Num(k as f64))]).collect(),
            It::Zip(a, b, x, y) => {
                let (x, y) = (d.arrays.get(x).ok_or("unknown")?, d.arrays.get(y).ok_or("unknown")?);
                x.iter().zip(y.iter()).map(|(p, q)| vec![(*a, Val::Num(*p)), (*b, Val::Num(*q))]).collect()
            }
            It::Edges(u, v, w, g) => {
                let g = d.graphs.get(g).ok_or("unknown graph")?;
                let mut out = vec![];
                for (from, edges) in g {
                    for (to, cost) in edges {
                        let mut b = vec![(*u, Val::Str(from.clone())), (*v, Val::Str(to.clone()))];
                        if let Some(w) = w {
                            b.push((*w, Val::Num(cost.unwrap_or(1.0))));
                        }
                        out.push(b);
                    }
                }
                out
            }
            It::Nodes(n, g) => d.graphs.get(g).ok_or("unknown graph")?.iter().map(|(name, _)| vec![(*n, Val::Str(name.clone()))]).collect(),
            It::NeighEdges(u, v, n) => {
                let Some(Val::Str(node)) = lookup(env, n) else { return Err("node unbound".into()) };
                // the node belongs to the single graph "G"
                let g = d.graphs.get("G").ok_or("unknown graph")?;
                let edges = g.iter().find(|(name, _)| name == node).map(|(_, e)| e.clone()).unwrap_or_default();
                edges.iter().map(|(to, _)| vec![(*u, Val::Str(node.clone())), (*v, Val::Str(to.clone()))]).collect()
            }
            It::NeighEdgesOf(u, v, name, g) => {
                let g = d.graphs.get(g).ok_or("unknown graph")?;
                let Some((_, edges)) = g.iter().find(|(n, _)| n == name) else { return Err("unknown node".into()) };
                edges.iter().map(|(to, _)| vec![(*u, Val::Str(name.to_string())), (*v, Val::Str(to.clone()))]).collect()
            }
            It::SetOp(v, op, a, b) => {
                let (a, b) = (d.arrays.get(a).ok_or("unknown")?, d.arrays.get(b).ok_or("unknown")?);
                let mut out: Vec<f64> = vec![];
                match *op {
                    "union" => {
                        for x in a.iter().chain(b.iter()) {
                            if !out.contains(x) {
                                out.push(*x);
                            }
                        }
                    }
                    // intersection and difference filter the first array (repeated values stay repeated)
                    "intersection" => {
                        for x in a {
                            if b.contains(x) {
                                out.push(*x);
                            }
                        }
                    }
                    _ => {
                        for x in a {
                            if !b.contains(x) {
                                out.push(*x);
                            }
                        }
                    }
                }
                out.into_iter().map(|x| vec![(*v, Val::Num(x))]).collect()
            }
            It::Rows(r, m) => d.matrices.get(m).ok_or("unknown matrix")?.iter().map(|row| vec![(*r, Val::Arr(row.clone()))]).collect(),
            It::InVar(v, r) => match lookup(env, r) {
                Some(Val::Arr(a)) => a.iter().map(|x| vec![(*v, Val::Num(*x))]).collect(),
                _ => return Err(format!("{r} is not a bound array")),
            },
            It::InRow(..) | It::EnumRow(..) | It::RangeLenRow(..) => {
                let (m, i) = match self {
                    It::InRow(_, m, i) | It::RangeLenRow(_, m, i) => (m, i),
                    It::EnumRow(_, _, m, i) => (m, i),
                    _ => unreachable!(),
                };
                let rows = d.matrices.get(m).ok_or("unknown matrix")?;
                let ix = i.eval(env, d)?.num();
                if ix < 0.0 || ix.fract() != 0.0 || ix as usize >= rows.len() {
                    return Err("row index out of range".into());
                }
                let row = &rows[ix as usize];
                match self {
                    It::InRow(v, _, _) => row.iter().map(|x| vec![(*v, Val::Num(*x))]).collect(),
                    It::EnumRow(v, k, _, _) => row.iter().enumerate().map(|(j, x)| vec![(*v, Val::Num(*x)), (*k, Val::Num(j as f64))]).collect(),
                    It::RangeLenRow(k, _, _) => (0..row.len()).map(|j| vec![(*k, Val::Num(j as f64))]).collect(),
                    _ => unreachable!(),
                }
            }
        })
    }
}

fn expand_all(iters: &[It], env: &Env, d: &Data) -> Result<Vec<Env>, String> {
    let mut envs = vec![env.clone()];
    for it in iters {
        let mut next = vec![];
        for e in &envs {
            for binding in it.expand(e, d)? {
                let mut e2 = e.clone();
                e2.extend(binding);
                next.push(e2);
            }
        }
        envs = next;
    }
    Ok(envs)
}

impl E {
    fn text(&self) -> String {
        match self {
            E::X(n, idx) => format!("{n}{}", idx.iter().map(|i| match i {
                I::Var(v) => format!("_{v}"),
                I::Lit(k) if *k >= 0.0 && k.fract() == 0.0 => format!("_{}", fmt_num(*k)),
                other => format!("_{{{}}}", other.text()),
            }).collect::<String>()),
            E::V(v) => v.to_string(),
            E::K(i) => i.text(),
            E::Add(a, b) => format!("{} + {}", a.text(), b.text()),
            E::Sub(a, b) => format!("{} - ({})", a.text(), b.text()),
            E::Mul(k, e) => format!("{} * ({})", k.text(), e.text()),
            E::Agg(kind, iters, body) => format!("{kind}({}) {{ {} }}", iters.iter().map(|i| i.text()).collect::<Vec<_>>().join(", "), body.text()),
        }
    }
    /// reference unrolling: a plain expression without any data-driven construct. Err = must be rejected.
    fn unroll(&self, env: &Env, d: &Data) -> Result<String, String> {
        Ok(match self {
            E::X(n, idx) => {
                let mut s = n.to_string();
                for i in idx {
                    s.push('_');
                    s.push_str(&i.eval(env, d)?.index_text());
                }
                s
            }
            E::V(v) => v.to_string(),
            E::K(i) => fmt_num(i.eval(env, d)?.num()),
            E::Add(a, b) => format!("{} + {}", a.unroll(env, d)?, b.unroll(env, d)?),
            E::Sub(a, b) => format!("{} - ({})", a.unroll(env, d)?, b.unroll(env, d)?),
            E::Mul(k, e) => format!("{} * ({})", fmt_num(k.eval(env, d)?.num()), e.unroll(env, d)?),
            E::Agg(kind, iters, body) => {
                let envs = expand_all(iters, env, d)?;
                let terms: Vec<String> = envs.iter().map(|e| body.unroll(e, d)).collect::<Result<_, _>>()?;
                match *kind {
                    "sum" => if terms.is_empty() { "0".into() } else { format!("({})", terms.join(" + ")) },
                    "prod" => if terms.is_empty() { "1".into() } else { format!("({})", terms.iter().map(|t| format!("({t})")).collect::<Vec<_>>().join(" * ")) },
                    "avg" => if terms.is_empty() { return Err("empty avg".into()) } else { format!("(({}) / {})", terms.join(" + "), terms.len()) },
                    "min" | "max" => if terms.is_empty() { return Err(format!("empty {kind}")) } else { format!("{kind}{{ {} }}", terms.join(", ")) },
                    other => return Err(format!("unknown aggregate {other}")),
                }
            }
        })
    }
}

#[derive(Clone, Debug)]
struct Cons {
    name: Option<(&'static str, Vec<I>)>,
    lhs: E,
    rel: &'static str,
    rhs: E,
    iters: Vec<It>,
}
#[derive(Clone, Debug)]
struct Decl {
    family: &'static str,
    idx: Vec<&'static str>,
    ty: &'static str,
    iters: Vec<It>,
}
#[derive(Clone, Debug)]
struct Prog {
    name: &'static str,
    sense: &'static str,
    obj: E,
    cons: Vec<Cons>,
    decls: Vec<Decl>,
    scalars: Vec<(&'static str, &'static str)>,
}

fn data_text(d: &Data) -> String {
    let mut s = String::new();
    for (n, a) in &d.arrays {
        s.push_str(&format!("    let {n} = [{}]\n", a.iter().map(|v| fmt_num(*v)).collect::<Vec<_>>().join(", ")));
    }
    for (n, m) in &d.matrices {
        s.push_str(&format!("    let {n} = [{}]\n", m.iter().map(|r| format!("[{}]", r.iter().map(|v| fmt_num(*v)).collect::<Vec<_>>().join(", "))).collect::<Vec<_>>().join(", ")));
    }
    for (n, g) in &d.graphs {
        let nodes: Vec<String> = g.iter().map(|(name, edges)| if edges.is_empty() { name.clone() } else { format!("{name} -> [{}]", edges.iter().map(|(t, c)| match c { Some(c) => format!("{t}: {}", fmt_num(*c)), None => t.clone() }).collect::<Vec<_>>().join(", ")) }).collect();
        s.push_str(&format!("    let {n} = Graph {{\n        {}\n    }}\n", nodes.join(",\n        ")));
    }
    s
}

impl Prog {
    fn with_constructs(&self, d: &Data) -> String {
        let mut s = format!("{} {}\ns.t.\n", self.sense, self.obj.text());
        for c in &self.cons {
            let name = match &c.name {
                Some((n, idx)) => format!("{}: ", E::X(n, idx.clone()).text()),
                None => String::new(),
            };
            let iters = if c.iters.is_empty() { String::new() } else { format!(" for {}", c.iters.iter().map(|i| i.text()).collect::<Vec<_>>().join(", ")) };
            s.push_str(&format!("    {name}{} {} {}{iters}\n", c.lhs.text(), c.rel, c.rhs.text()));
        }
        let dt = data_text(d);
        if !dt.is_empty() {
            s.push_str("where\n");
            s.push_str(&dt);
        }
        s.push_str("define\n");
        for (v, t) in &self.scalars {
            s.push_str(&format!("    {v} as {t}\n"));
        }
        for dc in &self.decls {
            let fam = format!("{}{}", dc.family, dc.idx.iter().map(|i| format!("_{i}")).collect::<String>());
            s.push_str(&format!("    {fam} as {} for {}\n", dc.ty, dc.iters.iter().map(|i| i.text()).collect::<Vec<_>>().join(", ")));
        }
        s
    }
    /// the hand-unrolled program; Err(reason) when the reference semantics says the program must be rejected
    fn unrolled(&self, d: &Data) -> Result<String, String> {
        let env: Env = vec![];
        let mut s = format!("{} {}\ns.t.\n", self.sense, self.obj.unroll(&env, d)?);
        for c in &self.cons {
            for e in expand_all(&c.iters, &env, d)? {
                let name = match &c.name {
                    Some((n, idx)) => format!("{}: ", E::X(n, idx.clone()).unroll(&e, d)?),
                    None => String::new(),
                };
                s.push_str(&format!("    {name}{} {} {}\n", c.lhs.unroll(&e, d)?, c.rel, c.rhs.unroll(&e, d)?));
            }
        }
        s.push_str("define\n");
        for (v, t) in &self.scalars {
            s.push_str(&format!("    {v} as {t}\n"));
        }
        for dc in &self.decls {
            let mut names = vec![];
            for e in expand_all(&dc.iters, &env, d)? {
                let idx: Vec<I> = dc.idx.iter().map(|i| I::Var(i)).collect();
                let n = E::X(dc.family, idx).unroll(&e, d)?;
                if !names.contains(&n) {
                    names.push(n);
                }
            }
            if !names.is_empty() {
                s.push_str(&format!("    {} as {}\n", names.join(", "), dc.ty));
            }
        }
        Ok(s)
    }
}

fn x(n: &'static str, idx: Vec<I>) -> E {
    E::X(n, idx)
}
fn iv(v: &'static str) -> I {
    I::Var(v)
}
fn add(a: E, b: E) -> E {
    E::Add(Box::new(a), Box::new(b))
}
fn agg(kind: &'static str, iters: Vec<It>, body: E) -> E {
    E::Agg(kind, iters, Box::new(body))
}
fn mul(k: I, e: E) -> E {
    E::Mul(k, Box::new(e))
}

fn range_decl(fam: &'static str, n: f64, ty: &'static str) -> Decl {
    Decl { family: fam, idx: vec!["i"], ty, iters: vec![It::Range("i", I::Lit(0.0), I::Lit(n), false)] }
}

fn templates() -> Vec<Prog> {
    let lit = I::Lit;
    let le = |lhs: E, rhs: f64| Cons { name: None, lhs, rel: "<=", rhs: E::K(I::Lit(rhs)), iters: vec![] };
    let base_decls = || vec![range_decl("x", 5.0, "NonNegativeReal(0, 9)"), range_decl("y", 5.0, "Boolean")];
    let sc = || vec![("z", "Real(-4, 4)")];
    let mut v = vec![];
    let mut p = |name: &'static str, obj: E, cons: Vec<Cons>, decls: Vec<Decl>| v.push(Prog { name, sense: "min", obj, cons, decls, scalars: sc() });
    // ranges
    p("sum-exclusive-range", agg("sum", vec![It::Range("i", lit(0.0), I::Len("A"), false)], mul(I::Acc("A", vec![iv("i")]), x("x", vec![iv("i")]))), vec![le(E::V("z"), 1.0)], base_decls());
    p("sum-inclusive-range", agg("sum", vec![It::Range("i", lit(1.0), lit(3.0), true)], mul(iv("i"), x("x", vec![iv("i")]))), vec![le(E::V("z"), 1.0)], base_decls());
    p("sum-range-from-negative", add(E::V("z"), agg("sum", vec![It::Range("i", lit(-2.0), lit(2.0), false)], mul(iv("i"), E::V("z")))), vec![le(E::V("z"), 1.0)], base_decls());
    p("sum-descending-range-is-empty", add(E::V("z"), agg("sum", vec![It::Range("i", lit(3.0), lit(1.0), false)], x("x", vec![iv("i")]))), vec![le(E::V("z"), 1.0)], base_decls());
    p("sum-empty-inclusive-range", add(E::V("z"), agg("sum", vec![It::Range("i", lit(2.0), lit(1.0), true)], x("x", vec![iv("i")]))), vec![le(E::V("z"), 1.0)], base_decls());
    p("sum-range-len-dependent", agg("sum", vec![It::Range("i", lit(0.0), I::Add(Box::new(I::Len("A")), Box::new(lit(-1.0))), true)], x("x", vec![iv("i")])), vec![le(E::V("z"), 1.0)], base_decls());
    // arrays
    p("sum-over-array", agg("sum", vec![It::In("v", "A")], mul(iv("v"), E::V("z"))), vec![le(E::V("z"), 1.0)], base_decls());
    p("sum-enumerate", agg("sum", vec![It::Enum("v", "i", "A")], mul(iv("v"), x("x", vec![iv("i")]))), vec![le(E::V("z"), 1.0)], base_decls());
    p("sum-zip-unequal", agg("sum", vec![It::Zip("a", "b", "A", "B")], mul(I::Add(Box::new(iv("a")), Box::new(iv("b"))), E::V("z"))), vec![le(E::V("z"), 1.0)], base_decls());
    p("sum-nested-dependent", agg("sum", vec![It::Range("i", lit(0.0), lit(3.0), false), It::Range("j", iv("i"), lit(3.0), false)], mul(I::Add(Box::new(iv("i")), Box::new(iv("j"))), x("x", vec![iv("j")]))), vec![le(E::V("z"), 1.0)], base_decls());
    p("sum-matrix-access", agg("sum", vec![It::Range("i", lit(0.0), lit(2.0), false), It::Range("j", lit(0.0), lit(2.0), false)], mul(I::Acc("M", vec![iv("i"), iv("j")]), x("x", vec![I::Add(Box::new(iv("i")), Box::new(iv("j")))]))), vec![le(E::V("z"), 1.0)], base_decls());
    p("sum-set-union", agg("sum", vec![It::SetOp("v", "union", "A", "B")], mul(iv("v"), E::V("z"))), vec![le(E::V("z"), 1.0)], base_decls());
    p("sum-set-intersection", add(E::V("z"), agg("sum", vec![It::SetOp("v", "intersection", "A", "B")], mul(iv("v"), E::V("z")))), vec![le(E::V("z"), 1.0)], base_decls());
    p("sum-set-difference", add(E::V("z"), agg("sum", vec![It::SetOp("v", "difference", "A", "B")], mul(iv("v"), E::V("z")))), vec![le(E::V("z"), 1.0)], base_decls());
    // nested arrays: rows bound as arrays, then iterated
    p("rows-of-matrix", add(E::V("z"), agg("sum", vec![It::Rows("row", "M"), It::InVar("v", "row")], mul(iv("v"), E::V("z")))), vec![le(E::V("z"), 1.0)], base_decls());
    p("forall-rows-len", E::V("z"), vec![Cons { name: None, lhs: add(E::V("z"), agg("sum", vec![It::InVar("v", "row")], mul(iv("v"), E::V("z")))), rel: "<=", rhs: E::K(I::LenVar("row")), iters: vec![It::Rows("row", "M")] }], base_decls());
    // the inner iterator depends on the outer variable only through an array-access index
    p("inner-row-by-index", add(E::V("z"), agg("sum", vec![It::Range("i", lit(0.0), I::Len("R"), false), It::InRow("v", "R", iv("i"))], mul(I::Add(Box::new(iv("v")), Box::new(I::Mul(Box::new(lit(10.0)), Box::new(iv("i"))))), E::V("z")))), vec![le(E::V("z"), 1.0)], base_decls());
    p("inner-enumerate-row-by-index", add(E::V("z"), agg("sum", vec![It::Range("i", lit(0.0), I::Len("R"), false), It::EnumRow("v", "k", "R", iv("i"))], mul(I::Add(Box::new(iv("v")), Box::new(I::Mul(Box::new(lit(10.0)), Box::new(iv("k"))))), x("x", vec![iv("i")])))), vec![le(E::V("z"), 1.0)], base_decls());
    p("forall-range-len-row-by-index", E::V("z"), vec![Cons { name: None, lhs: add(x("x", vec![iv("k")]), E::V("z")), rel: "<=", rhs: E::K(I::Acc("R", vec![iv("i"), iv("k")])), iters: vec![It::Range("i", lit(0.0), I::Len("R"), false), It::RangeLenRow("k", "R", iv("i"))] }], base_decls());
    // differences of lengths (negative when A is shorter than B) as constant, coefficient and range end
    p("length-difference", add(mul(I::Sub(Box::new(I::Len("A")), Box::new(I::Len("B"))), E::V("z")), agg("sum", vec![It::Range("i", I::Sub(Box::new(I::Len("A")), Box::new(I::Len("B"))), lit(2.0), false)], mul(I::Add(Box::new(iv("i")), Box::new(lit(5.0))), E::V("z")))), vec![Cons { name: None, lhs: E::V("z"), rel: "<=", rhs: E::K(I::Sub(Box::new(I::Len("B")), Box::new(I::Len("A")))), iters: vec![] }], base_decls());
    // other aggregates
    p("prod-of-data", mul(I::Lit(1.0), add(E::V("z"), mul(lit(0.0), E::V("z")))), vec![Cons { name: None, lhs: mul(lit(1.0), E::V("z")), rel: "<=", rhs: agg("prod", vec![It::In("v", "A")], E::K(iv("v"))), iters: vec![] }], base_decls());
    p("prod-empty-is-one", E::V("z"), vec![Cons { name: None, lhs: E::V("z"), rel: "<=", rhs: agg("prod", vec![It::Range("i", lit(0.0), lit(0.0), false)], E::K(iv("i"))), iters: vec![] }], base_decls());
    p("avg-over-array", agg("avg", vec![It::Enum("v", "i", "A")], mul(iv("v"), x("x", vec![iv("i")]))), vec![le(E::V("z"), 1.0)], base_decls());
    p("avg-empty-rejected", agg("avg", vec![It::Range("i", lit(0.0), lit(0.0), false)], x("x", vec![iv("i")])), vec![le(E::V("z"), 1.0)], base_decls());
    p("max-scoped", agg("max", vec![It::Enum("v", "i", "A")], mul(iv("v"), x("x", vec![iv("i")]))), vec![le(E::V("z"), 1.0)], base_decls());
    p("min-scoped-in-row", E::V("z"), vec![Cons { name: None, lhs: agg("min", vec![It::Range("i", lit(0.0), lit(3.0), false)], add(x("x", vec![iv("i")]), E::K(iv("i")))), rel: ">=", rhs: E::K(lit(1.0)), iters: vec![] }], base_decls());
    p("max-empty-rejected", agg("max", vec![It::Range("i", lit(0.0), lit(0.0), false)], x("x", vec![iv("i")])), vec![le(E::V("z"), 1.0)], base_decls());
    // for-quantified constraints, names, shadowing
    p("forall-range", E::V("z"), vec![Cons { name: None, lhs: x("x", vec![iv("i")]), rel: "<=", rhs: E::K(I::Acc("A", vec![iv("i")])), iters: vec![It::Range("i", lit(0.0), I::Len("A"), false)] }], base_decls());
    p("forall-named-indexed", E::V("z"), vec![Cons { name: Some(("cap", vec![iv("i")])), lhs: add(x("x", vec![iv("i")]), E::V("z")), rel: "<=", rhs: E::K(I::Mul(Box::new(lit(2.0)), Box::new(iv("i")))), iters: vec![It::Range("i", lit(0.0), lit(3.0), false)] }], base_decls());
    p("forall-two-iterators-named", E::V("z"), vec![Cons { name: Some(("r", vec![iv("i"), iv("j")])), lhs: add(x("x", vec![iv("i")]), x("x", vec![iv("j")])), rel: ">=", rhs: E::K(I::Add(Box::new(iv("i")), Box::new(iv("j")))), iters: vec![It::Range("i", lit(0.0), lit(2.0), false), It::Range("j", I::Add(Box::new(iv("i")), Box::new(lit(1.0))), lit(3.0), false)] }], base_decls());
    p("forall-enumerate", E::V("z"), vec![Cons { name: None, lhs: mul(iv("v"), x("x", vec![iv("k")])), rel: "<=", rhs: E::K(I::Add(Box::new(iv("v")), Box::new(iv("k")))), iters: vec![It::Enum("v", "k", "A")] }], base_decls());
    p("forall-zip", E::V("z"), vec![Cons { name: None, lhs: mul(iv("a"), E::V("z")), rel: "<=", rhs: E::K(iv("b")), iters: vec![It::Zip("a", "b", "A", "B")] }], base_decls());
    p("forall-empty-range-no-rows", E::V("z"), vec![Cons { name: None, lhs: x("x", vec![iv("i")]), rel: "<=", rhs: E::K(lit(1.0)), iters: vec![It::Range("i", lit(2.0), lit(2.0), false)] }, le(E::V("z"), 3.0)], base_decls());
    p("index-expression", agg("sum", vec![It::Range("i", lit(0.0), lit(3.0), false)], add(x("x", vec![I::Add(Box::new(iv("i")), Box::new(lit(1.0)))]), x("x", vec![I::Acc("IDX", vec![iv("i")])]))), vec![le(E::V("z"), 1.0)], base_decls());
    // two-index families
    p("two-index-family", agg("sum", vec![It::Range("i", lit(0.0), lit(2.0), false), It::Range("j", lit(0.0), lit(3.0), false)], mul(I::Add(Box::new(I::Mul(Box::new(lit(3.0)), Box::new(iv("i")))), Box::new(iv("j"))), x("w", vec![iv("i"), iv("j")]))), vec![le(E::V("z"), 1.0)], vec![Decl { family: "w", idx: vec!["i", "j"], ty: "Real(0, 1)", iters: vec![It::Range("i", lit(0.0), lit(2.0), false), It::Range("j", lit(0.0), lit(3.0), false)] }]);
    p("two-index-collision-prone", add(x("w", vec![lit(1.0), lit(23.0)]), x("w", vec![lit(12.0), lit(3.0)])), vec![le(E::V("z"), 1.0)], vec![Decl { family: "w", idx: vec!["i", "j"], ty: "Real(0, 1)", iters: vec![It::Zip("i", "j", "P1", "P2")] }]);
    // graphs
    p("graph-edges-weights", agg("sum", vec![It::Edges("u", "v", Some("c"), "G")], mul(iv("c"), x("e", vec![iv("u"), iv("v")]))), vec![le(E::V("z"), 1.0)], vec![Decl { family: "e", idx: vec!["u", "v"], ty: "Boolean", iters: vec![It::Edges("u", "v", None, "G")] }]);
    p("graph-nodes-neighbours", E::V("z"), vec![Cons { name: Some(("deg", vec![iv("n")])), lhs: add(agg("sum", vec![It::NeighEdges("u", "v", "n")], x("e", vec![iv("u"), iv("v")])), E::V("z")), rel: ">=", rhs: E::K(lit(0.0)), iters: vec![It::Nodes("n", "G")] }], vec![Decl { family: "e", idx: vec!["u", "v"], ty: "Boolean", iters: vec![It::Edges("u", "v", None, "G")] }]);
    p("graph-neigh-edges-of", add(E::V("z"), agg("sum", vec![It::NeighEdgesOf("u", "v", "A", "G")], x("e", vec![iv("u"), iv("v")]))), vec![le(E::V("z"), 1.0)], vec![Decl { family: "e", idx: vec!["u", "v"], ty: "Boolean", iters: vec![It::Edges("u", "v", None, "G")] }]);
    p("declaration-over-array-values", agg("sum", vec![It::In("v", "IDX")], x("q", vec![iv("v")])), vec![le(E::V("z"), 1.0)], vec![Decl { family: "q", idx: vec!["v"], ty: "IntegerRange(0, 3)", iters: vec![It::In("v", "IDX")] }]);
    v
}

fn data_shapes() -> Vec<(&'static str, Data)> {
    let graph = |edges: Vec<(&str, Vec<(&str, Option<f64>)>)>| edges.into_iter().map(|(n, e)| (n.to_string(), e.into_iter().map(|(t, c)| (t.to_string(), c)).collect())).collect::<Vec<_>>();
    let mk = |a: Vec<f64>, b: Vec<f64>, g: Vec<(String, Vec<(String, Option<f64>)>)>| {
        let mut d = Data::default();
        d.arrays.insert("A", a);
        d.arrays.insert("B", b);
        d.arrays.insert("IDX", vec![2.0, 0.0, 3.0]);
        d.arrays.insert("P1", vec![1.0, 12.0]);
        d.arrays.insert("P2", vec![23.0, 3.0]);
        d.matrices.insert("M", vec![vec![1.0, 2.0], vec![3.0, 4.5]]);
        // a ragged matrix: rows of different lengths and values
        d.matrices.insert("R", vec![vec![1.0], vec![2.0, 3.0], vec![0.5, 4.0, 5.0]]);
        d.graphs.insert("G", g);
        d
    };
    vec![
        ("three-elements", mk(vec![1.0, 2.0, 3.0], vec![4.0, 5.0], graph(vec![("A", vec![("B", Some(2.0)), ("C", Some(3.0))]), ("B", vec![("C", Some(1.5))]), ("C", vec![])]))),
        ("fractional-repeated", mk(vec![0.5, 2.5, 2.5], vec![0.5, 2.0, 7.0, 9.0], graph(vec![("A", vec![("B", None), ("A", None)]), ("B", vec![("A", None)]), ("C", vec![])]))),
        ("singleton", mk(vec![4.0], vec![4.0], graph(vec![("A", vec![])]))),
        ("two-and-shared", mk(vec![2.0, 0.0], vec![0.0, 2.0, 2.0], graph(vec![("A", vec![("B", Some(0.5))]), ("B", vec![])]))),
        // an empty array, and a graph whose only node has no edges: every aggregation over them is empty
        ("empty-A", mk(vec![], vec![3.0], graph(vec![("A", vec![])]))),
        // node names spelled like the iteration variables the templates use (u, v, n, t): a compound index
        // `e_u_v` must still be the current pair, not the variable literally called e_u_v
        ("nodes-named-like-iteration-variables", mk(vec![1.0, 2.0, 3.0], vec![4.0, 5.0], graph(vec![("A", vec![("u", Some(2.0)), ("v", None)]), ("u", vec![("v", Some(1.5)), ("n", Some(3.0))]), ("v", vec![("A", None), ("t", Some(0.5))]), ("n", vec![("u", None)]), ("t", vec![])]))),
    ]
}

/// identical: same variables, domains, rows in the same order with the same names, objective, offset
fn same_ordered(a: &LinearModel, b: &LinearModel) -> Option<String> {
    let (sa, sb) = (LmSpec::from_rooc(a)?, LmSpec::from_rooc(b)?);
    if sa.vars != sb.vars {
        return Some(format!("variables/domains differ: {:?} vs {:?}", sa.vars, sb.vars));
    }
    if sa.sense != sb.sense || sa.obj != sb.obj || sa.offset != sb.offset {
        return Some(format!("objective differs: {:?}+{} vs {:?}+{}", sa.obj, sa.offset, sb.obj, sb.offset));
    }
    if sa.rows.len() != sb.rows.len() {
        return Some(format!("{} rows vs {} rows", sa.rows.len(), sb.rows.len()));
    }
    for (i, (ra, rb)) in sa.rows.iter().zip(&sb.rows).enumerate() {
        if ra.name != rb.name || ra.coef != rb.coef || ra.rel != rb.rel || ra.rhs != rb.rhs {
            return Some(format!("row {i} differs: {}: {:?} {:?} {} vs {}: {:?} {:?} {}", ra.name, ra.coef, ra.rel, ra.rhs, rb.name, rb.coef, rb.rel, rb.rhs));
        }
    }
    None
}

fn compile(src: &str) -> Result<LinearModel, String> {
    let m = RoocParser::new(src.to_string()).parse_and_transform(vec![], &IndexMap::new()).map_err(|e| format!("transform: {}", e.lines().next().unwrap_or("")))?;
    Linearizer::linearize(m).map_err(|e| format!("linearize: {e}"))
}

fn check(i: u64, l: &mut Local) {
    let ts = templates();
    let ds = data_shapes();
    let t = &ts[i as usize / ds.len()];
    let (dname, d) = &ds[i as usize % ds.len()];
    check_prog(t, dname, d, l);
}

/// family R: every range a..b / a..=b with a, b in -3..=3 in four syntactic positions
const RANGE_POSITIONS: [&str; 4] = ["range-grid:sum", "range-grid:forall", "range-grid:declaration", "range-grid:nested-dependent"];
fn range_grid_size() -> u64 {
    7 * 7 * 2 * RANGE_POSITIONS.len() as u64
}
fn range_grid(i: u64) -> Prog {
    let lit = I::Lit;
    let plus = |a: I, k: f64| I::Add(Box::new(a), Box::new(I::Lit(k)));
    let le = |lhs: E, rhs: f64| Cons { name: None, lhs, rel: "<=", rhs: E::K(I::Lit(rhs)), iters: vec![] };
    let mut i = i;
    let mut digit = |n: u64| {
        let d = i % n;
        i /= n;
        d
    };
    let pos = digit(RANGE_POSITIONS.len() as u64) as usize;
    let incl = digit(2) == 1;
    let b = digit(7) as f64 - 3.0;
    let a = digit(7) as f64 - 3.0;
    let xs = || vec![range_decl("x", 9.0, "NonNegativeReal(0, 9)")];
    let sc = vec![("z", "Real(-4, 4)")];
    let name = RANGE_POSITIONS[pos];
    match pos {
        0 => Prog { name, sense: "min", obj: add(E::V("z"), agg("sum", vec![It::Range("i", lit(a), lit(b), incl)], mul(plus(iv("i"), 4.0), x("x", vec![plus(iv("i"), 3.0)])))), cons: vec![le(E::V("z"), 1.0)], decls: xs(), scalars: sc },
        1 => Prog { name, sense: "min", obj: E::V("z"), cons: vec![Cons { name: None, lhs: add(x("x", vec![plus(iv("i"), 3.0)]), E::V("z")), rel: "<=", rhs: E::K(iv("i")), iters: vec![It::Range("i", lit(a), lit(b), incl)] }, le(E::V("z"), 3.0)], decls: xs(), scalars: sc },
        2 => Prog {
            name,
            sense: "max",
            obj: add(E::V("z"), agg("sum", vec![It::Range("i", lit(a + 3.0), lit(b + 3.0), incl)], mul(plus(iv("i"), 1.0), x("w", vec![iv("i")])))),
            cons: vec![le(E::V("z"), 1.0)],
            decls: vec![Decl { family: "w", idx: vec!["i"], ty: "Real(0, 1)", iters: vec![It::Range("i", lit(a + 3.0), lit(b + 3.0), incl)] }],
            scalars: sc,
        },
        _ => Prog { name, sense: "min", obj: add(E::V("z"), agg("sum", vec![It::Range("i", lit(0.0), lit(2.0), false), It::Range("j", plus(iv("i"), a), lit(b), incl)], mul(plus(iv("j"), 5.0), x("x", vec![plus(iv("j"), 4.0)])))), cons: vec![le(E::V("z"), 1.0)], decls: xs(), scalars: sc },
    }
}

/// family N: every ordered pair (outer iterator kind, inner iterator kind) in three positions
const PAIR_POSITIONS: [&str; 3] = ["sum", "forall", "forall-sum"];
const OUTER_KINDS: usize = 7;
const N_SHAPES: usize = 5;
const INNER_KINDS: usize = 8;
fn pair_size() -> u64 {
    (OUTER_KINDS * INNER_KINDS * PAIR_POSITIONS.len() * N_SHAPES) as u64
}
/// (iterator, numeric variables it binds)
fn outer_kind(k: usize) -> (It, Vec<&'static str>, &'static str) {
    match k {
        0 => (It::Range("i", I::Lit(0.0), I::Len("A"), false), vec!["i"], "range"),
        1 => (It::In("v", "A"), vec!["v"], "array"),
        2 => (It::Enum("v", "i", "A"), vec!["v", "i"], "enumerate"),
        3 => (It::Zip("a", "b", "A", "B"), vec!["a", "b"], "zip"),
        4 => (It::Edges("u", "t", Some("w"), "G"), vec!["w"], "edges"),
        5 => (It::SetOp("v", "union", "A", "B"), vec!["v"], "union"),
        _ => (It::Nodes("n", "G"), vec![], "nodes"),
    }
}
fn inner_kind(k: usize, outer_nums: &[&'static str], outer: usize) -> Option<(It, Vec<&'static str>, &'static str)> {
    Some(match k {
        0 => (It::Range("i2", I::Lit(0.0), I::Len("B"), false), vec!["i2"], "range"),
        1 => (It::In("v2", "B"), vec!["v2"], "array"),
        2 => (It::Enum("v2", "i2", "B"), vec!["v2", "i2"], "enumerate"),
        3 => (It::Zip("a2", "b2", "B", "A"), vec!["a2", "b2"], "zip"),
        4 => (It::Edges("u2", "t2", Some("w2"), "G"), vec!["w2"], "edges"),
        5 => (It::SetOp("v2", "difference", "B", "A"), vec!["v2"], "difference"),
        6 => (It::Range("j2", I::Var(outer_nums.first()?), I::Lit(3.0), true), vec!["j2"], "dependent-range"),
        _ => {
            if outer != 6 {
                return None;
            }
            (It::NeighEdges("u2", "t2", "n"), vec![], "neigh_edges")
        }
    })
}
fn pair_prog(i: u64) -> Option<(Prog, usize)> {
    let mut i = i;
    let mut digit = |n: usize| {
        let d = (i % n as u64) as usize;
        i /= n as u64;
        d
    };
    let shape = digit(N_SHAPES);
    let pos = digit(PAIR_POSITIONS.len());
    let ik = digit(INNER_KINDS);
    let ok = digit(OUTER_KINDS);
    let (outer, onums, oname) = outer_kind(ok);
    let (inner, inums, iname) = inner_kind(ik, &onums, ok)?;
    let mut k: Option<I> = None;
    for (n, v) in onums.iter().chain(inums.iter()).enumerate() {
        // distinct weights so that a swapped binding changes the coefficient
        let term = I::Mul(Box::new(I::Lit((n + 1) as f64)), Box::new(I::Var(v)));
        k = Some(match k {
            None => term,
            Some(prev) => I::Add(Box::new(prev), Box::new(term)),
        });
    }
    let k = k.unwrap_or(I::Lit(1.0));
    let name: &'static str = Box::leak(format!("pair:{}:{oname}>{iname}", PAIR_POSITIONS[pos]).into_boxed_str());
    let le1 = |lhs: E, iters: Vec<It>| Cons { name: None, lhs, rel: "<=", rhs: E::K(I::Lit(1.0)), iters };
    let sc = vec![("z", "Real(-4, 4)")];
    let prog = match pos {
        0 => Prog { name, sense: "min", obj: add(E::V("z"), agg("sum", vec![outer, inner], mul(k, E::V("z")))), cons: vec![le1(E::V("z"), vec![])], decls: vec![], scalars: sc },
        1 => Prog { name, sense: "min", obj: E::V("z"), cons: vec![le1(mul(k, E::V("z")), vec![outer, inner]), le1(E::V("z"), vec![])], decls: vec![], scalars: sc },
        _ => Prog { name, sense: "min", obj: E::V("z"), cons: vec![le1(add(E::V("z"), agg("sum", vec![inner], mul(k, E::V("z")))), vec![outer]), le1(E::V("z"), vec![])], decls: vec![], scalars: sc },
    };
    Some((prog, shape))
}

/// family N3 (thorough): every triple of independent iterator kinds nested three deep
fn leak(s: String) -> &'static str {
    Box::leak(s.into_boxed_str())
}
fn plain_kind(k: usize, level: usize) -> (It, Vec<&'static str>, &'static str) {
    let n = |base: &str| leak(format!("{base}{level}"));
    let (a, b) = if level % 2 == 0 { ("A", "B") } else { ("B", "A") };
    match k {
        0 => (It::Range(n("i"), I::Lit(0.0), I::Len(a), false), vec![n("i")], "range"),
        1 => (It::In(n("v"), a), vec![n("v")], "array"),
        2 => (It::Enum(n("v"), n("i"), a), vec![n("v"), n("i")], "enumerate"),
        3 => (It::Zip(n("p"), n("q"), a, b), vec![n("p"), n("q")], "zip"),
        4 => (It::Edges(n("u"), n("t"), Some(n("w")), "G"), vec![n("w")], "edges"),
        _ => (It::SetOp(n("v"), if level % 2 == 0 { "union" } else { "intersection" }, a, b), vec![n("v")], "set-op"),
    }
}
const PLAIN_KINDS: usize = 6;
fn triple_size() -> u64 {
    (PLAIN_KINDS * PLAIN_KINDS * PLAIN_KINDS * 2 * N_SHAPES) as u64
}
fn triple_prog(i: u64) -> (Prog, usize) {
    let mut i = i;
    let mut digit = |n: usize| {
        let d = (i % n as u64) as usize;
        i /= n as u64;
        d
    };
    let shape = digit(N_SHAPES);
    let forall = digit(2) == 1;
    let (k3, k2, k1) = (digit(PLAIN_KINDS), digit(PLAIN_KINDS), digit(PLAIN_KINDS));
    let (it1, n1, name1) = plain_kind(k1, 0);
    let (it2, n2, name2) = plain_kind(k2, 1);
    let (it3, n3, name3) = plain_kind(k3, 2);
    let mut k: Option<I> = None;
    for (n, v) in n1.iter().chain(n2.iter()).chain(n3.iter()).enumerate() {
        let term = I::Mul(Box::new(I::Lit((n + 1) as f64)), Box::new(I::Var(v)));
        k = Some(match k {
            None => term,
            Some(prev) => I::Add(Box::new(prev), Box::new(term)),
        });
    }
    let k = k.unwrap();
    let name = leak(format!("triple:{}:{name1}>{name2}>{name3}", if forall { "forall" } else { "sum" }));
    let le1 = |lhs: E, iters: Vec<It>| Cons { name: None, lhs, rel: "<=", rhs: E::K(I::Lit(1.0)), iters };
    let sc = vec![("z", "Real(-4, 4)")];
    let prog = if forall {
        Prog { name, sense: "min", obj: E::V("z"), cons: vec![le1(mul(k, E::V("z")), vec![it1, it2, it3]), le1(E::V("z"), vec![])], decls: vec![], scalars: sc }
    } else {
        Prog { name, sense: "min", obj: add(E::V("z"), agg("sum", vec![it1, it2, it3], mul(k, E::V("z")))), cons: vec![le1(E::V("z"), vec![])], decls: vec![], scalars: sc }
    };
    (prog, shape)
}

fn check_prog(t: &Prog, dname: &str, d: &Data, l: &mut Local) {
    let p_text = t.with_constructs(d);
    let u_text = t.unrolled(d);
    l.count("pairs");
    let case = |what: String| json!({"template": t.name, "data": dname, "program": p_text, "unrolled": u_text.clone().unwrap_or_else(|e| format!("<must be rejected: {e}>")), "what": what});
    l.sample(|| case("sample".into()));
    let p = crate::core::catch(|| compile(&p_text)).unwrap_or_else(|e| Err(format!("panic: {e}")));
    let sig = |k: &str| format!("{k}:{}", t.name);
    match (&u_text, &p) {
        (Err(_), Err(_)) => l.count("both-rejected"),
        (Err(why), Ok(_)) => l.violation(sig("accepted-but-reference-rejects"), format!("the reference semantics rejects this program ({why}) but it compiles"), case(why.clone())),
        (Ok(u), _) => {
            let uc = crate::core::catch(|| compile(u)).unwrap_or_else(|e| Err(format!("panic: {e}")));
            match (&p, &uc) {
                (Ok(a), Ok(b)) => {
                    l.count("both-compiled");
                    l.nontrivial(&p_text);
                    if let Some(diff) = same_ordered(a, b) {
                        l.violation(sig("expansion-differs"), diff.clone(), case(diff));
                    }
                }
                (Err(e), Ok(_)) => l.violation(sig("construct-program-rejected"), format!("the unrolled program compiles, the program with constructs is rejected: {e}"), case(e.clone())),
                (Ok(_), Err(e)) => l.violation(sig("UNROLLER-SELFCHECK-unrolled-program-rejected"), format!("the hand-unrolled program does not compile: {e}"), case(e.clone())),
                (Err(a), Err(b)) => {
                    l.count("both-rejected");
                    let _ = (a, b);
                }
            }
        }
    }
}

pub fn run(mut run: Run) -> ! {
    crate::core::silence_panics();
    let n = (templates().len() * data_shapes().len()) as u64;
    run.rule = "family P: 40 program templates (exclusive/inclusive/negative/descending/empty/length-dependent ranges, array iteration, enumerate, zip of unequal lengths, dependent nested iterators, matrix access, iteration over the rows of a nested array and over each bound row, inner iterators that depend on the outer variable only through an array-access index (v in R[i], enumerate(R[i]), 0..len(R[i]) over a ragged matrix), union/intersection/difference, prod incl. empty, avg/min/max incl. empty ones that must be rejected, for-quantified constraints with indexed names, two iterators, index expressions x_{i+1} and x_{A[i]}, two-index families incl. the collision-prone x_1_23 / x_12_3, graph edges with weights, nodes, neigh_edges, neigh_edges_of, declarations over ranges / array values / edges) x 5 data shapes (3 elements; fractional and repeated values with self-loop and unweighted graph; singletons with isolated node; zeros and shared elements; an empty array with an edgeless graph); family R: every range a..b and a..=b with a, b in -3..=3 as sum iterator, for-quantifier of a constraint, iterator of a declaration, and inner iterator whose start depends on the outer variable (784 programs); family N: every ordered pair (outer, inner) of iterator kinds {range, array, enumerate, zip, weighted edges, union/difference, nodes, dependent range, neigh_edges of the outer node} as nested sum, as nested for-quantifier (row order) and as sum inside a for-quantified row, x the 5 data shapes, with a coefficient that weights every bound variable differently; family N3: every triple of independent iterator kinds nested three deep as sum and as for-quantifier x the 5 data shapes; each pair (program with constructs, reference unrolling) is compiled and the linear models compared row for row in order; distinct = program texts; non-trivial = both compile".into();
    run.assume("reference unroller implementing the documented iteration semantics (textual order of data, zip stops at the shorter array, enumerate counts from 0, exclusive/inclusive ranges, descending ranges empty, empty sum = 0, empty prod = 1, empty avg/min/max rejected, union keeps first occurrences in order, intersection and difference filter the first array); all data values are small dyadic numbers so coefficient sums are exact and models are compared with zero tolerance");
    run.family("P-template-x-data", n, check);
    run.family("R-range-grid", range_grid_size(), |i, l| {
        let ds = data_shapes();
        check_prog(&range_grid(i), ds[0].0, &ds[0].1, l);
    });
    run.family("N-iterator-pairs", pair_size(), |i, l| match pair_prog(i) {
        None => l.count("pair-not-expressible"),
        Some((p, shape)) => {
            let ds = data_shapes();
            check_prog(&p, ds[shape].0, &ds[shape].1, l);
        }
    });
    run.family("N3-iterator-triples", triple_size(), |i, l| {
        let (p, shape) = triple_prog(i);
        let ds = data_shapes();
        check_prog(&p, ds[shape].0, &ds[shape].1, l);
    });
    run.require("both-compiled");
    run.require("both-rejected");
    run.finish()
}
