//! C11 — formatting preserves meaning and is idempotent.
use crate::core::{Digits, Local, Run};
use crate::textref::{Ast, B, BINOPS, RefParser, premodel_structure, print_full, print_min, strip_spans};
use indexmap::IndexMap;
use rooc::RoocParser;
use serde_json::{Value, json};

/// tree shapes with k binary nodes (Catalan), as nested (left_size) choices
fn shapes(k: usize) -> Vec<Shape> {
    if k == 0 {
        return vec![Shape::Leaf];
    }
    let mut out = vec![];
    for l in 0..k {
        for a in shapes(l) {
            for b in shapes(k - 1 - l) {
                out.push(Shape::Node(Box::new(a.clone()), Box::new(b)));
            }
        }
    }
    out
}
#[derive(Clone, Debug)]
enum Shape {
    Leaf,
    Node(Box<Shape>, Box<Shape>),
}

const LEAVES: [&str; 4] = ["a", "x", "2", "b"];

#[derive(Clone, Copy)]
enum Deco {
    None,
    Neg,
    Not,
    NegNeg,
    NotNeg,
    NotNot,
}
fn deco(d: Deco, e: Ast) -> Ast {
    match d {
        Deco::None => e,
        Deco::Neg => Ast::Neg(Box::new(e)),
        Deco::Not => Ast::Not(Box::new(e)),
        Deco::NegNeg => Ast::Neg(Box::new(Ast::Neg(Box::new(e)))),
        Deco::NotNeg => Ast::Not(Box::new(Ast::Neg(Box::new(e)))),
        Deco::NotNot => Ast::Not(Box::new(Ast::Not(Box::new(e)))),
    }
}

fn build(shape: &Shape, d: &mut Digits, leaf_no: &mut usize, node_decos: &[Deco], leaf_decos: &[Deco]) -> Ast {
    match shape {
        Shape::Leaf => {
            let sym = LEAVES[*leaf_no % LEAVES.len()];
            *leaf_no += 1;
            let leaf = if sym == "2" { Ast::Num("2".into()) } else { Ast::Var(sym.into()) };
            deco(*d.of(leaf_decos), leaf)
        }
        Shape::Node(l, r) => {
            let op = *d.of(&BINOPS);
            let nd = *d.of(node_decos);
            let left = build(l, d, leaf_no, node_decos, leaf_decos);
            let right = build(r, d, leaf_no, node_decos, leaf_decos);
            deco(nd, Ast::Bin(op, Box::new(left), Box::new(right)))
        }
    }
}
fn family_size(k: usize, node_decos: usize, leaf_decos: usize) -> u64 {
    (BINOPS.len() as u64 * node_decos as u64).pow(k as u32) * (leaf_decos as u64).pow(k as u32 + 1)
}

fn compile_structure(src: &str) -> Result<Value, String> {
    let m = RoocParser::new(src.to_string()).parse_and_transform(vec![], &IndexMap::new())?;
    let mut v = serde_json::to_value(&m).map_err(|e| e.to_string())?;
    strip_spans(&mut v);
    Ok(v)
}

/// the three checks of the property on one source text
pub fn check_text(src: &str, what: &str, sig: &str, l: &mut Local) {
    l.count("texts");
    let case = |extra: Value| json!({"source": src, "what": what, "detail": extra});
    let parsed = match crate::core::catch(|| RoocParser::new(src.to_string()).parse()) {
        Err(p) => {
            l.violation(format!("panic:parse:{sig}"), format!("parser panicked: {p}"), case(json!(null)));
            return;
        }
        Ok(Err(_)) => {
            l.count("does-not-parse(skipped)");
            return;
        }
        Ok(Ok(p)) => p,
    };
    l.count("parsed");
    let formatted = match crate::core::catch(|| RoocParser::new(src.to_string()).format()) {
        Err(p) => {
            l.violation(format!("panic:format:{sig}"), format!("format panicked: {p}"), case(json!(null)));
            return;
        }
        Ok(Err(e)) => {
            l.violation(format!("format-fails:{sig}"), format!("format() fails on a parseable text: {e}"), case(json!(null)));
            return;
        }
        Ok(Ok(f)) => f,
    };
    l.nontrivial(&formatted);
    l.sample(|| json!({"source": src, "formatted": formatted}));
    let reparsed = match RoocParser::new(formatted.clone()).parse() {
        Err(e) => {
            l.violation(format!("formatted-does-not-parse:{sig}"), format!("formatted text does not parse: {}", e.to_string().lines().next().unwrap_or("")), case(json!({"formatted": formatted})));
            return;
        }
        Ok(p) => p,
    };
    let (s1, s2) = (premodel_structure(&parsed), premodel_structure(&reparsed));
    if s1 != s2 {
        l.violation(format!("meaning-changed:{sig}"), "formatted text parses to a different program", case(json!({"formatted": formatted})));
        return;
    }
    match RoocParser::new(formatted.clone()).format() {
        Ok(f2) if f2 == formatted => {}
        Ok(f2) => l.violation(format!("not-idempotent:{sig}"), "format(format(t)) != format(t)", case(json!({"formatted": formatted, "formatted_twice": f2}))),
        Err(e) => l.violation(format!("formatted-does-not-format:{sig}"), format!("{e}"), case(json!({"formatted": formatted}))),
    }
    // compiled models (when the program compiles)
    match (compile_structure(src), compile_structure(&formatted)) {
        (Ok(a), Ok(b)) => {
            l.count("compiled-both");
            if a != b {
                l.violation(format!("compiled-model-differs:{sig}"), "original and formatted text compile to different models", case(json!({"formatted": formatted})));
            }
        }
        (Ok(_), Err(e)) => l.violation(format!("formatted-does-not-compile:{sig}"), format!("original compiles, formatted does not: {}", e.lines().next().unwrap_or("")), case(json!({"formatted": formatted}))),
        (Err(_), Ok(_)) => l.violation(format!("only-formatted-compiles:{sig}"), "formatted compiles although the original does not", case(json!({"formatted": formatted}))),
        (Err(_), Err(_)) => l.count("neither-compiles"),
    }
}

/// (parent, child, side) of the first nesting that needs parentheses under the reference grammar
fn nesting_signature(a: &Ast) -> String {
    fn find(a: &Ast) -> Option<String> {
        match a {
            Ast::Bin(p, l, r) => {
                for (c, left) in [(l, true), (r, false)] {
                    if let Ast::Bin(q, _, _) = &**c {
                        if crate::textref::needs_paren(*p, *q, left) {
                            return Some(format!("{}>{}@{}", p.name(), q.name(), if left { "left" } else { "right" }));
                        }
                    }
                }
                find(l).or_else(|| find(r))
            }
            Ast::Neg(e) | Ast::Not(e) => match &**e {
                Ast::Neg(_) | Ast::Not(_) => Some("prefix>prefix".into()),
                Ast::Bin(_, _, _) => find(e).or(Some("prefix>binary".into())),
                _ => None,
            },
            _ => None,
        }
    }
    find(a).unwrap_or_else(|| "no-parens-needed".into())
}

fn expr_case(ast: &Ast, l: &mut Local) {
    // printer self-check: minimal parentheses round-trip through the reference parser
    let min = print_min(ast, false);
    let sig = nesting_signature(ast);
    let is_logic_root = matches!(ast, Ast::Not(_)) || matches!(ast, Ast::Bin(op, _, _) if op.is_logic());
    for (text, style) in [(min, "minimal-parens"), (print_full(ast), "full-parens"), (print_min(ast, true), "aliases")] {
        let src = if is_logic_root {
            format!("min 1\ns.t.\n    {text}\ndefine\n    a, b as Boolean\n    x as Real\n")
        } else {
            format!("min {text}\ns.t.\n    x >= 0\ndefine\n    a, b as Boolean\n    x as Real\n")
        };
        check_text(&src, style, &sig, l);
    }
}

/// Ranked enumeration of the expression-family source texts (shared with C12):
/// returns (total, source text of case i, nesting signature); i = u64::MAX asks for the total only.
pub fn expr_sources(quick: bool, i: u64) -> (u64, Option<String>, String) {
    let plain = vec![Deco::None];
    let three = vec![Deco::None, Deco::Neg, Deco::Not];
    let five = vec![Deco::None, Deco::Neg, Deco::Not, Deco::NegNeg, Deco::NotNeg, Deco::NotNot];
    let mut fams: Vec<(usize, Vec<Deco>, Vec<Deco>)> = vec![(1, three.clone(), five.clone()), (2, three.clone(), three.clone()), (3, plain.clone(), plain.clone())];
    if !quick {
        fams.push((3, three.clone(), plain.clone()));
    }
    let mut total = 0u64;
    let mut found = None;
    for (k, nd, ld) in fams {
        let sh = shapes(k);
        let per = family_size(k, nd.len(), ld.len());
        let size = per * sh.len() as u64 * 3;
        if found.is_none() && i != u64::MAX && i < total + size {
            let j = i - total;
            let style = j % 3;
            let j = j / 3;
            let shape = &sh[(j / per) as usize];
            let mut d = Digits(j % per);
            let mut leaf_no = 0;
            let ast = build(shape, &mut d, &mut leaf_no, &nd, &ld);
            let text = match style {
                0 => print_min(&ast, false),
                1 => print_full(&ast),
                _ => print_min(&ast, true),
            };
            let is_logic_root = matches!(ast, Ast::Not(_)) || matches!(ast, Ast::Bin(op, _, _) if op.is_logic());
            let src = if is_logic_root {
                format!("min 1\ns.t.\n    {text}\ndefine\n    a, b as Boolean\n    x as Real(-4, 4)\n")
            } else {
                format!("min {text}\ns.t.\n    x >= 0\ndefine\n    a, b as Boolean\n    x as Real(-4, 4)\n")
            };
            found = Some((src, nesting_signature(&ast)));
        }
        total += size;
    }
    match found {
        Some((src, sig)) => (total, Some(src), sig),
        None => (total, None, String::new()),
    }
}

pub const CORPUS: &[(&str, &str)] = &[
    ("decl-forms", "min x + y + z + w + i\ns.t.\n    x >= 1\ndefine\n    x as Real\n    y as NonNegativeReal\n    z as Real(-3, 4.5)\n    w as NonNegativeReal(0, 10)\n    i as IntegerRange(-2, 5)\n    b as Boolean\n"),
    ("decl-infinite-bounds", "min x\ns.t.\n    x >= -3\ndefine\n    x as Real(MinusInfinity, 4)\n    y as Real(-1, Infinity)\n"),
    ("indexed-names", "min sum(i in 0..3) { x_i }\ns.t.\n    x_0 + x_{1} + x_{1 + 1} >= 2\n    x_i <= 4 for i in 0..3\ndefine\n    x_i as NonNegativeReal for i in 0..3\n"),
    ("escaped-name", "min \\x_1 + y\ns.t.\n    \\x_1 >= 1\n    y >= 0\ndefine\n    \\x_1 as Real\n    y as Real\n"),
    ("two-index", "min sum(i in 0..2, j in 0..2) { c[i][j] * x_i_j }\ns.t.\n    sum(j in 0..2) { x_i_j } >= 1 for i in 0..2\nwhere\n    let c = [[1, 2], [3, 4]]\ndefine\n    x_i_j as NonNegativeReal for i in 0..2, j in 0..2\n"),
    ("blocks", "min max { x, y, 2 } + min { x, 3 } + avg { x, y } + abs { x - y }\ns.t.\n    x >= 1\n    y >= 2\ndefine\n    x, y as NonNegativeReal(0, 9)\n"),
    ("logic-blocks", "solve\ns.t.\n    all { a, b or c }\n    any { a, not b }\n    xor { a, b, c }\ndefine\n    a, b, c as Boolean\n"),
    ("scoped-blocks", "min sum(v in A) { v * x } + prod(i in 1..3) { i } * y + max(i in 0..2) { A[i] * x } + min(i in 0..2) { x + i } + avg(v in A) { v * y }\ns.t.\n    x >= 1\n    y >= 1\nwhere\n    let A = [2, 3]\ndefine\n    x, y as NonNegativeReal(0, 5)\n"),
    ("scoped-logic", "solve\ns.t.\n    all(i in 0..3) { b_i or c }\n    any(i in 0..3) { b_i }\n    xor(i in 0..3) { b_i }\ndefine\n    b_i as Boolean for i in 0..3\n    c as Boolean\n"),
    ("iterators", "min sum((v, i) in enumerate(A)) { v * x_i }\ns.t.\n    x_i >= B[i] for i in 0..len(A)\n    x_i <= a + b for (a, b) in zip(A, B), i in 0..=1\nwhere\n    let A = [1, 2, 3]\n    let B = [0.5, 1.5, 2.5]\ndefine\n    x_i as Real(-10, 10) for i in 0..3\n"),
    ("graph", "min sum((u, v, w) in edges(G)) { w * x_u_v }\ns.t.\n    sum((u, v) in edges(G)) { x_u_v } >= 1\n    sum(e in neigh_edges(n)) { 1 } >= 0 for n in nodes(G)\nwhere\n    let G = Graph {\n        A -> [B: 0, C: 3],\n        B -> [C: 1.5],\n        C\n    }\ndefine\n    x_u_v as Boolean for (u, v) in edges(G)\n"),
    ("graph-no-weights", "min sum((u, v) in edges(G)) { x_u_v }\ns.t.\n    x_u_v >= 0 for (u, v) in edges(G)\nwhere\n    let G = Graph {\n        A -> [B, C],\n        B -> [A],\n        C\n    }\ndefine\n    x_u_v as Boolean for (u, v) in edges(G)\n"),
    ("constants", "min x\ns.t.\n    x >= n + len(S) + M[0][1]\nwhere\n    let n = 3\n    let f = 2.5\n    let t = true\n    let S = [\"a\", \"b\"]\n    let M = [[1, 2], [3, 4]]\n    let E = []\n    let bs = [true, false]\ndefine\n    x as Real\n"),
    ("named-constraints", "min x + y\ns.t.\n    cap: x + y <= 10\n    lo_i: x >= i for i in 0..2\n    x - y >= -3\ndefine\n    x, y as NonNegativeReal\n"),
    ("comments", "// leading comment\nmin x /* inline */ + 1\ns.t.\n    x >= 1 // trailing\n    /* block */\n    x <= 4\ndefine\n    x as Real\n"),
    ("implicit-mul", "min 2x + 3(x + y) + (x)(2) + 2(3)y\ns.t.\n    x >= 1\n    y >= 1\ndefine\n    x, y as NonNegativeReal(0, 4)\n"),
    ("division-chains", "min x / 2 / 4 + x / (2 * 4) + x * 2 / 4 + 1 / 2x\ns.t.\n    x >= 1\ndefine\n    x as NonNegativeReal(0, 4)\n"),
    ("subtraction-chains", "min x - (y - z) - (x + y) + (x - y) - z\ns.t.\n    x - (y + 1) >= 0\n    y >= 0\n    z >= 0\ndefine\n    x, y, z as NonNegativeReal(0, 5)\n"),
    ("unary-on-negatives", "min -(-2) * x + -(x - 1) - -x\ns.t.\n    x >= -(-1)\ndefine\n    x as NonNegativeReal(0, 5)\n"),
    ("st-variant", "max x\nsubject to\n    x <= 4\ndefine\n    x as NonNegativeReal\n"),
    ("satisfy", "solve\ns.t.\n    a implies b\n    b iff c\n    a xor c\ndefine\n    a, b, c as Boolean\n"),
    ("logic-mixed", "solve\ns.t.\n    (a implies b) implies c\n    a implies (b implies c)\n    (a iff b) iff c\n    a iff (b iff c)\n    a implies b iff c\n    a iff b implies c\n    (a or b) and c\n    a or b and c\n    not (a and b)\n    not a and b\ndefine\n    a, b, c as Boolean\n"),
    ("set-functions", "min sum(v in union(A, B)) { v * x } + sum(v in intersection(A, B)) { v } + sum(v in difference(A, B)) { v }\ns.t.\n    x >= 0\nwhere\n    let A = [1, 2, 3]\n    let B = [2, 3, 4]\ndefine\n    x as NonNegativeReal(0, 3)\n"),
    ("tuple-placeholder", "min sum((_, i) in enumerate(A)) { x_i }\ns.t.\n    x_i >= 1 for (_, i) in enumerate(A)\nwhere\n    let A = [5, 6]\ndefine\n    x_i as Real(0, 9) for i in 0..2\n"),
    ("neigh-edges-of", "min sum((u, v) in neigh_edges_of(\"A\", G)) { x_u_v }\ns.t.\n    x_u_v >= 0 for (u, v) in edges(G)\nwhere\n    let G = Graph {\n        A -> [B, C],\n        B -> [A],\n        C\n    }\ndefine\n    x_u_v as Boolean for (u, v) in edges(G)\n"),
    ("dynamic-bounds", "min sum(i in 0..2) { x_i }\ns.t.\n    x_i >= lo[i] for i in 0..2\nwhere\n    let lo = [1, 2]\n    let hi = [5, 6]\ndefine\n    x_i as Real(lo[i], hi[i]) for i in 0..2\n    k as IntegerRange(len(lo), 2 * 3)\n"),
    ("constant-arithmetic", "min k * x + m * y_{k - 13}\ns.t.\n    x >= j - 3\n    y_i >= h for i in 0..(k - 12)\nwhere\n    let k = 2 + 3 * 4 - 1\n    let j = -k + 20\n    let m = k / 2\n    let h = (j - m) * 0\ndefine\n    x as Real(0, 100)\n    y_i as Real(0, 9) for i in 0..2\n"),
    ("unicode-strings", "min x // caf\u{e9} \u{2192} comment\ns.t.\n    x >= len(S)\nwhere\n    let S = [\"\u{e9}\u{2192}\", \"b\u{1f642}\"]\n    let T = \"\u{df}\"\ndefine\n    x as Real\n"),
    ("index-expressions", "min x_{c[0]} + y_{len(c)}_1 + x_{c[1] - 1}\ns.t.\n    x_{c[i]} >= i for i in 0..2\n    y_{len(c)}_{i} <= 4 for i in 0..2\n    cap_{c[i]}: x_i <= 8 for i in 0..2\nwhere\n    let c = [1, 2]\ndefine\n    x_i as Real(0, 9) for i in 0..3\n    y_i_j as Real(0, 9) for i in 0..3, j in 0..3\n"),
    ("unary-minus-before-blocks", "min -sum(i in 0..2) { x_i } - -abs { x_0 } + -(x_0 + x_1) - max { x_0, -x_1 } * -2\ns.t.\n    -min { x_0, x_1 } <= 0\n    -x_0 <= -(-1)\ndefine\n    x_i as Real(-3, 3) for i in 0..2\n"),
    ("strict-comparisons", "min x\ns.t.\n    x > 1\n    x + y < 4\n    2 * y > -3\ndefine\n    x, y as Real(0, 10)\n"),
    ("mixed-matrix", "min sum(i in 0..2, j in 0..2) { M[i][j] * x_i } + k * x_0 + T[1][0][1] * x_1\ns.t.\n    x_i >= M[i][0] for i in 0..2\n    x_0 <= M[1][1] + len(M[0])\nwhere\n    let M = [[1, 2], [3, 4.5]]\n    let T = [[[1, 2], [3, 4]], [[5, 6.5], [7, 8]]]\n    let k = M[0][1]\ndefine\n    x_i as Real(0, 20) for i in 0..2\n"),
    ("named-logic-assertions", "solve\ns.t.\n    pick: a_0 xor b_0\n    one_i: a_i implies not b_i for i in 0..2\n    both: (a_0 or b_1) and not (a_1 and b_0)\n    a_1 iff b_1\ndefine\n    a_i, b_i as Boolean for i in 0..2\n"),
    ("single-name-destructuring", "min sum((a) in M) { a * x } + sum((u) in edges(G)) { x } + sum((_) in enumerate(A)) { x }\ns.t.\n    x >= a for (a) in M\n    x >= 0 for (_) in edges(G)\nwhere\n    let M = [[1, 2], [3, 4]]\n    let A = [5, 6]\n    let G = Graph {\n        P -> [Q: 2],\n        Q\n    }\ndefine\n    x as Real(0, 9)\n"),
    ("bound-propagation-cycle", "min x\ns.t.\n    x >= y + 1\n    y >= x + 1\n    z >= w + 0.5\n    w >= v + 0.5\n    v >= z + 0.5\ndefine\n    x, y as NonNegativeReal\n    z, w, v as Real(0, Infinity)\n"),
    ("long-decimal-literals", "min 3.14159265 * x + 0.0000004 * y + 2.718281828\ns.t.\n    x + y >= 1.00000049\n    x <= k\nwhere\n    let k = 0.123456789\n    let A = [0.00000125, 7.5]\ndefine\n    x as Real(0.00000125, 2.718281828)\n    y as NonNegativeReal(0, 1.0000001)\n"),
    ("graph-edge-less-node-first", "min sum((i, n) in enumerate(nodes(G))) { cost[i] * x_n }\ns.t.\n    x_n >= 1 for n in nodes(G)\nwhere\n    let cost = [5, 7, 11]\n    let G = Graph {\n        T,\n        S -> [T: 2, M],\n        M -> [T]\n    }\ndefine\n    x_n as Real(0, 3) for n in nodes(G)\n"),
    ("index-fragment-equals-a-variable-name", "min sum(s in keys) { x_s } + a + b + positive\ns.t.\n    x_s >= a for s in keys\n    abs { y - 2 } >= z\n    a or b or positive\nwhere\n    let keys = [\"a\", \"b\"]\ndefine\n    x_s as Real(0, 4) for s in keys\n    y as Real(0, 4)\n    z as Real(0, 1)\n    a, b, positive as Boolean\n"),
    ("row-bounds-an-auxiliary", "min y + b\ns.t.\n    abs { y - 2 } >= 1\ndefine\n    y as Real(0, 4)\n    b as Boolean\n"),
    ("generated-lp-row-names-against-user-names", "min x + y\ns.t.\n    x + y >= 1\n    c1: x <= 4\n    c1_3: y <= 4\n    x - y <= 2\n    c4: x >= 0\n    c4_2: y >= 0\n    c4_4: x + 2 * y >= 1\ndefine\n    x, y as Real(0, 9)\n"),
    ("zip-unequal-lengths", "min sum((p, q) in zip(A, B)) { p * x + q } + sum((q, p) in zip(B, A)) { q * x } + sum((p, q, r) in zip(A, B, C)) { (p + q + r) * x }\ns.t.\n    x >= p - q for (p, q) in zip(A, B)\nwhere\n    let A = [1, 2, 3]\n    let B = [4, 5]\n    let C = [6]\ndefine\n    x as Real(0, 9)\n"),
    ("function-constants", "min sum(i in R) { x_i } + sum((v, k) in EN) { v * x_k } + L * x_0\ns.t.\n    x_i >= 1 for i in R\n    x_i <= 8 for i in range(0, 2, closed)\n    x_i >= 0 for i in range(1, 2, not closed)\n    x_0 <= len(range(0, 4, true)) + len(U)\nwhere\n    let R = range(0, 3, false)\n    let closed = true\n    let EN = enumerate([4, 5])\n    let L = len([1, 2])\n    let U = union([1, 2], [2, 3])\ndefine\n    x_i as Real(0, 9) for i in 0..3\n"),
    ("long-multibyte-line", "min sum((c, i) in enumerate([\"\u{141}\u{f3}d\u{17a}\", \"K\u{f8}benhavn\", \"\u{17d}ilina\", \"\u{10c}esk\u{e9} Bud\u{11b}jovice\", \"\u{c5}lesund\", \"\u{d3}buda\", \"\u{15e}anl\u{131}urfa\"])) { (i + 1) * x_i }\ns.t.\n    x_i >= len([\"\u{141}\u{f3}d\u{17a}\", \"K\u{f8}benhavn\", \"\u{17d}ilina\", \"\u{10c}esk\u{e9} Bud\u{11b}jovice\", \"\u{c5}lesund\", \"\u{d3}buda\", \"\u{15e}anl\u{131}urfa\"]) - 7 for i in 0..7\ndefine\n    x_i as Real(0, 9) for i in 0..7\n"),
    ("long-multibyte-line-shifted", "min  sum((c, i) in enumerate([\"\u{141}\u{f3}d\u{17a}\", \"K\u{f8}benhavn\", \"\u{17d}ilina\", \"\u{10c}esk\u{e9} Bud\u{11b}jovice\", \"\u{c5}lesund\", \"\u{d3}buda\", \"\u{15e}anl\u{131}urfa\"])) { (i + 1) * x_i }\ns.t.\n     x_i >= len([\"\u{141}\u{f3}d\u{17a}\", \"K\u{f8}benhavn\", \"\u{17d}ilina\", \"\u{10c}esk\u{e9} Bud\u{11b}jovice\", \"\u{c5}lesund\", \"\u{d3}buda\", \"\u{15e}anl\u{131}urfa\"]) - 7 for i in 0..7\ndefine\n    x_i as Real(0, 9) for i in 0..7\n"),
];

pub fn run(mut run: Run) -> ! {
    crate::core::silence_panics();
    run.rule = "expression family: every tree with up to 3 binary operators (all Catalan shapes x 9 operators per node) x prefix decoration (none, -, not) on every node and leaf (leaf also -(-.) and not(-.)) rendered by the reference printer with exactly the necessary parentheses, fully parenthesised, and with symbolic aliases; corpus family: programs covering every declaration, block, scoped block, iterator, constant and naming form; each text is formatted, re-parsed and compared structurally (spans ignored), formatted twice, and both texts are compiled and the models compared; distinct = formatted texts".into();
    run.assume("structural identity of programs = serde JSON of rooc's PreModel / Model with source spans removed");
    run.assume("reference printer/parser pair (precedence climbing as in C09) decides which parentheses are necessary; the printer is self-checked against the parser on every tree");
    let quick = run.quick();
    // printer self-check + format checks
    let plain = [Deco::None];
    let three = [Deco::None, Deco::Neg, Deco::Not];
    let five = [Deco::None, Deco::Neg, Deco::Not, Deco::NegNeg, Deco::NotNeg, Deco::NotNot];
    let mut fams: Vec<(String, usize, Vec<Deco>, Vec<Deco>)> = vec![
        ("E1-one-op-all-decorations".into(), 1, three.to_vec(), five.to_vec()),
        ("E2-two-ops-decorated".into(), 2, three.to_vec(), three.to_vec()),
        ("E3-three-ops-plain".into(), 3, plain.to_vec(), plain.to_vec()),
    ];
    if !quick {
        fams.push(("E3d-three-ops-node-decorated".into(), 3, three.to_vec(), plain.to_vec()));
        fams.push(("E3l-three-ops-leaf-decorated".into(), 3, plain.to_vec(), three.to_vec()));
        fams.push(("E4-four-ops-plain".into(), 4, plain.to_vec(), plain.to_vec()));
    }
    for (name, k, nd, ld) in fams {
        let sh = shapes(k);
        let per = family_size(k, nd.len(), ld.len());
        let total = per * sh.len() as u64;
        run.family(&name, total, move |i, l| {
            let shape = &sh[(i / per) as usize];
            let mut d = Digits(i % per);
            let mut leaf_no = 0;
            let ast = build(shape, &mut d, &mut leaf_no, &nd, &ld);
            // reference printer self-check
            let text = print_min(&ast, false);
            let toks = tokenize(&text);
            match RefParser::parse(&toks) {
                Ok(back) if back == ast => {}
                other => {
                    l.violation("PRINTER-SELFCHECK", format!("reference printer/parser disagree on `{text}`: {:?}", other.map(|a| a.sexpr())), json!({"ast": ast.sexpr(), "text": text}));
                    return;
                }
            }
            expr_case(&ast, l);
        });
    }
    run.family("corpus", CORPUS.len() as u64, |i, l| {
        let (name, src) = CORPUS[i as usize];
        l.count(&format!("corpus:{name}"));
        let before = l.counters.get("parsed").copied().unwrap_or(0);
        check_text(src, name, &format!("corpus:{name}"), l);
        if l.counters.get("parsed").copied().unwrap_or(0) == before {
            l.violation("CORPUS-SELFCHECK", format!("corpus program {name} does not parse"), json!({"source": src}));
        }
    });
    run.require("parsed");
    run.require("compiled-both");
    run.finish()
}

/// tokenizer for the reference printer's own output (self-check only)
fn tokenize(text: &str) -> Vec<crate::textref::Tok> {
    use crate::textref::Tok;
    let mut out = vec![];
    let spaced = text.replace('(', " ( ").replace(')', " ) ").replace("not ", " not ");
    let mut prev_operand = false;
    for w in spaced.split_whitespace() {
        let mut w = w;
        // a leading '-' glued to an operand is the prefix minus
        if w.len() > 1 && w.starts_with('-') && !w.starts_with("->") {
            out.push(Tok::Neg);
            w = &w[1..];
            prev_operand = false;
        }
        let t = match w {
            "(" => Tok::LPar,
            ")" => Tok::RPar,
            "not" | "!" => Tok::Not,
            "+" => Tok::Bin(B::Add),
            "-" => {
                if prev_operand { Tok::Bin(B::Sub) } else { Tok::Neg }
            }
            "*" => Tok::Bin(B::Mul),
            "/" => Tok::Bin(B::Div),
            "and" | "&&" => Tok::Bin(B::And),
            "or" | "||" => Tok::Bin(B::Or),
            "xor" => Tok::Bin(B::Xor),
            "implies" | "->" => Tok::Bin(B::Implies),
            "iff" | "<->" => Tok::Bin(B::Iff),
            "2" => Tok::Num("2"),
            "a" => Tok::Var("a"),
            "b" => Tok::Var("b"),
            "x" => Tok::Var("x"),
            other => panic!("tokenize: {other}"),
        };
        prev_operand = matches!(t, Tok::RPar | Tok::Num(_) | Tok::Var(_));
        out.push(t);
    }
    out
}
