//! C01 — linearization preserves the feasible set (and, via `judge`, C02/C07/C08 reuse the generators).
use crate::core::{Digits, Local, Run};
use crate::exact::{Q, Rel, q, qr};
use crate::linsem::*;
use crate::lm::{Dom, Sense};
use crate::refsem::Env;
use num_traits::Signed;
use rooc::BinOp;
use rooc::model_transformer::Exp;
use serde_json::json;

// ---------- expression alphabets ----------

pub fn cores() -> Vec<(&'static str, Exp)> {
    let x = || var("x");
    let b = || var("b");
    let c = || var("c");
    vec![
        ("x", x()),
        ("abs{x}", Exp::Abs(x().to_box())),
        ("abs{x-1}", Exp::Abs(bin(BinOp::Sub, x(), num(1.0)).to_box())),
        ("abs{2x+1}", Exp::Abs(bin(BinOp::Add, bin(BinOp::Mul, num(2.0), x()), num(1.0)).to_box())),
        ("abs{abs{x}-1}", Exp::Abs(bin(BinOp::Sub, Exp::Abs(x().to_box()), num(1.0)).to_box())),
        ("min{x,1}", Exp::Min(vec![x(), num(1.0)])),
        ("max{x,0}", Exp::Max(vec![x(), num(0.0)])),
        ("max{x,-x}", Exp::Max(vec![x(), neg(x())])),
        ("min{x,1,-x}", Exp::Min(vec![x(), num(1.0), neg(x())])),
        ("max{min{x,1},-1}", Exp::Max(vec![Exp::Min(vec![x(), num(1.0)]), num(-1.0)])),
        ("min{abs{x},2}", Exp::Min(vec![Exp::Abs(x().to_box()), num(2.0)])),
        ("max{x,x}", Exp::Max(vec![x(), x()])),
        ("max{x,5}", Exp::Max(vec![x(), num(5.0)])),
        ("min{2,1}", Exp::Min(vec![num(2.0), num(1.0)])),
        ("abs{x}+abs{x-2}", bin(BinOp::Add, Exp::Abs(x().to_box()), Exp::Abs(bin(BinOp::Sub, x(), num(2.0)).to_box()))),
        // operands that differ only by a constant, or only by a factor
        ("min{x+1,x+3}", Exp::Min(vec![bin(BinOp::Add, x(), num(1.0)), bin(BinOp::Add, x(), num(3.0))])),
        ("max{x-1,x+2,b}", Exp::Max(vec![bin(BinOp::Sub, x(), num(1.0)), bin(BinOp::Add, x(), num(2.0)), b()])),
        ("min{2x,x}", Exp::Min(vec![bin(BinOp::Mul, num(2.0), x()), x()])),
        ("max{x,b}", Exp::Max(vec![x(), b()])),
        ("min{x,2b}", Exp::Min(vec![x(), bin(BinOp::Mul, num(2.0), b())])),
        ("abs{x-b}", Exp::Abs(bin(BinOp::Sub, x(), b()).to_box())),
        ("b and c", Exp::And(vec![b(), c()])),
        ("b or c", Exp::Or(vec![b(), c()])),
        ("not b", Exp::Not(b().to_box())),
        ("b xor c", Exp::Xor(b().to_box(), c().to_box())),
        ("b implies c", Exp::Implies(b().to_box(), c().to_box())),
        ("b iff c", Exp::Iff(b().to_box(), c().to_box())),
        ("x+(b and c)", bin(BinOp::Add, x(), Exp::And(vec![b(), c()]))),
        ("abs{x}-(b or c)", bin(BinOp::Sub, Exp::Abs(x().to_box()), Exp::Or(vec![b(), c()]))),
        // constant-only blocks whose value has the "other" sign (folds that start from 0 get these wrong)
        ("max{-2,-1}", Exp::Max(vec![num(-2.0), num(-1.0)])),
        ("x+min{3,2}", bin(BinOp::Add, x(), Exp::Min(vec![num(3.0), num(2.0)]))),
        ("abs{-2}-x", bin(BinOp::Sub, Exp::Abs(num(-2.0).to_box()), x())),
        // three operands with different ranges, the first one dominated (pruned) before two retained ones
        ("max{b-5,x,2c}", Exp::Max(vec![bin(BinOp::Sub, b(), num(5.0)), x(), bin(BinOp::Mul, num(2.0), c())])),
        ("min{b+5,x,2c}", Exp::Min(vec![bin(BinOp::Add, b(), num(5.0)), x(), bin(BinOp::Mul, num(2.0), c())])),
        // a fractional coefficient inside a block (the block value is fractional although x may be integer)
        ("max{0.5x,b}", Exp::Max(vec![bin(BinOp::Mul, num(0.5), x()), b()])),
        ("abs{x/2-b}", Exp::Abs(bin(BinOp::Sub, bin(BinOp::Div, x(), num(2.0)), b()).to_box())),
        // the same block twice with opposite orientations (a lowering that is shared between the
        // occurrences must be exact)
        ("max{x,b}/2-max{x,b}", bin(BinOp::Sub, bin(BinOp::Div, Exp::Max(vec![x(), b()]), num(2.0)), Exp::Max(vec![x(), b()]))),
        ("min{x,1}-2min{x,1}", bin(BinOp::Sub, Exp::Min(vec![x(), num(1.0)]), bin(BinOp::Mul, num(2.0), Exp::Min(vec![x(), num(1.0)])))),
        ("abs{x}/2-abs{x}", bin(BinOp::Sub, bin(BinOp::Div, Exp::Abs(x().to_box()), num(2.0)), Exp::Abs(x().to_box()))),
        // sums of n terms divided by n: rendered as avg blocks by the text engines
        ("(x+b)/2", bin(BinOp::Div, bin(BinOp::Add, x(), b()), num(2.0))),
        ("(x+2+4+b)/4", bin(BinOp::Div, bin(BinOp::Add, bin(BinOp::Add, bin(BinOp::Add, x(), num(2.0)), num(4.0)), b()), num(4.0))),
        ("(abs{x}+1+b+c)/4", bin(BinOp::Div, bin(BinOp::Add, bin(BinOp::Add, bin(BinOp::Add, Exp::Abs(x().to_box()), num(1.0)), b()), c()), num(4.0))),
    ]
}

pub const CTX_NAMES: [&str; 15] = ["id", "2*.", "-1*.", ".*-0.5", "-.", ".+1", "1-.", "./2", "./-2", "abs{.}", "min{.,1}", "max{.,0}", ".-x", "0*.", "1-(-.+x)"];

pub fn ctx(i: usize, e: Exp) -> Exp {
    match i {
        0 => e,
        1 => bin(BinOp::Mul, num(2.0), e),
        2 => bin(BinOp::Mul, num(-1.0), e),
        3 => bin(BinOp::Mul, e, num(-0.5)),
        4 => neg(e),
        5 => bin(BinOp::Add, e, num(1.0)),
        6 => bin(BinOp::Sub, num(1.0), e),
        7 => bin(BinOp::Div, e, num(2.0)),
        8 => bin(BinOp::Div, e, num(-2.0)),
        9 => Exp::Abs(e.to_box()),
        10 => Exp::Min(vec![e, num(1.0)]),
        11 => Exp::Max(vec![e, num(0.0)]),
        12 => bin(BinOp::Sub, e, var("x")),
        13 => bin(BinOp::Mul, num(0.0), e),
        // a unary minus at a subtracted position of a +/- chain
        _ => bin(BinOp::Sub, num(1.0), bin(BinOp::Add, neg(e), var("x"))),
    }
}

pub fn decls() -> Vec<(&'static str, Vec<(String, Dom)>, Vec<SrcCons>)> {
    let bc = |d: Dom| vec![("b".to_string(), Dom::Bool), ("c".to_string(), Dom::Bool), ("x".to_string(), d)];
    let row = |lhs: Exp, rel: Rel, rhs: f64| SrcCons { lhs, rel, rhs: num(rhs), bare: false, name: String::new() };
    vec![
        ("x:Real(-3,3)", bc(Dom::Real(-3.0, 3.0)), vec![]),
        ("x:NonNeg(0,4)", bc(Dom::NonNegB(0.0, 4.0)), vec![]),
        ("x:Int(-2,2)", bc(Dom::Int(-2, 2)), vec![]),
        ("x:Real+rows", bc(Dom::Free), vec![row(var("x"), Rel::Ge, -3.0), row(var("x"), Rel::Le, 2.0)]),
        ("x:Real+scaled-rows", bc(Dom::Free), vec![row(bin(BinOp::Mul, num(-2.0), var("x")), Rel::Le, 4.0), row(bin(BinOp::Div, var("x"), num(2.0)), Rel::Le, 1.5)]),
        ("x:Real-unbounded", bc(Dom::Free), vec![]),
        ("x:NonNeg-unbounded", bc(Dom::NonNeg), vec![]),
        ("x:Real(-inf,2)", bc(Dom::Real(f64::NEG_INFINITY, 2.0)), vec![]),
        // an integer range with exactly one admissible value, and a huge but finite range
        ("x:Int(1,1)", bc(Dom::Int(1, 1)), vec![]),
        ("x:Real(-1e18,1e18)+row", bc(Dom::Real(-1e18, 1e18)), vec![row(bin(BinOp::Add, var("x"), var("b")), Rel::Le, 2.0)]),
        // rows that cancel to a constant comparison which holds (x = x, 0 * b <= 1) next to an integer variable
        ("x:Int(-2,2)+rows-that-cancel", bc(Dom::Int(-2, 2)), vec![SrcCons { lhs: var("x"), rel: Rel::Eq, rhs: var("x"), bare: false, name: String::new() }, row(bin(BinOp::Sub, var("b"), var("b")), Rel::Le, 1.0)]),
    ]
}

pub const BASE_DECLS: usize = 8;
pub const RHS: [f64; 7] = [-3.0, -1.0, 0.0, 0.5, 1.0, 2.0, 3.0];
pub const RELS: [Rel; 3] = [Rel::Le, Rel::Ge, Rel::Eq];

#[derive(Clone)]
pub struct Case {
    pub model: SrcModel,
    pub signature: String,
}

/// family A: one core in a chain of <= `depth` contexts, compared with a constant
pub fn family_a_size(depth: usize, quick: bool) -> u64 {
    let nctx: u64 = (0..=depth as u32).map(|k| (CTX_NAMES.len() as u64 - 1).pow(k)).sum();
    let (nd, nr) = if quick { (4, 3) } else { (BASE_DECLS as u64, RHS.len() as u64) };
    cores().len() as u64 * nctx * 3 * nr * nd * 2
}
pub fn family_a(i: u64, depth: usize, quick: bool) -> Case {
    let ds: Vec<_> = if quick { decls().into_iter().enumerate().filter(|(k, _)| [0, 2, 4, 5].contains(k)).map(|(_, d)| d).collect() } else { decls().into_iter().take(BASE_DECLS).collect() };
    let rhs_menu: Vec<f64> = if quick { vec![0.0, 0.5, 3.0] } else { RHS.to_vec() };
    family_a_with(i, depth, ds, rhs_menu)
}
/// family AX: family A at depth <= 1 over one of the extra declaration forms
/// (k = 0: single-point integer range, k = 1: huge finite range)
pub fn family_ax_size() -> u64 {
    cores().len() as u64 * CTX_NAMES.len() as u64 * 3 * RHS.len() as u64 * 2
}
pub fn family_ax0_size() -> u64 {
    cores().len() as u64 * 3 * RHS.len() as u64 * 2
}
/// the same without context chains
pub fn family_ax0(i: u64, k: usize) -> Case {
    family_a_with(i, 0, decls().into_iter().skip(BASE_DECLS + k).take(1).collect(), RHS.to_vec())
}
pub fn family_ax(i: u64, k: usize) -> Case {
    let mut c = family_a_with(i, 1, decls().into_iter().skip(BASE_DECLS + k).take(1).collect(), RHS.to_vec());
    if k == 1 {
        // one call-site class: constants the lowerings derive from a declared range beyond 2^53 (see DESIGN.md, findings)
        c.signature = "huge-declared-range".into();
    }
    c
}
fn family_a_with(i: u64, depth: usize, ds: Vec<(&'static str, Vec<(String, Dom)>, Vec<SrcCons>)>, rhs_menu: Vec<f64>) -> Case {
    let cs = cores();
    let mut d = Digits(i);
    let side = d.pick(2);
    let rhs = *d.of(&rhs_menu);
    let rel = *d.of(&RELS);
    let (dname, vars, extra) = d.of(&ds).clone();
    let (cname, core) = d.of(&cs).clone();
    // context chain: pick length then contexts (index 0 'id' excluded inside chains)
    let nper = CTX_NAMES.len() as u64 - 1;
    let mut rest = d.0;
    let mut len = 0usize;
    let mut count = 1u64;
    while len < depth && rest >= count {
        rest -= count;
        count *= nper;
        len += 1;
    }
    let mut e = core;
    let mut names = vec![];
    let mut r = rest;
    for _ in 0..len {
        let k = (r % nper) as usize + 1;
        r /= nper;
        e = ctx(k, e);
        names.push(CTX_NAMES[k]);
    }
    let (lhs, rhs_e) = if side == 0 { (e, num(rhs)) } else { (num(rhs), e) };
    let mut cons = extra;
    cons.push(SrcCons { lhs, rel, rhs: rhs_e, bare: false, name: "r".into() });
    Case {
        model: SrcModel { vars, cons, sense: Sense::Satisfy, obj: num(0.0) },
        signature: format!("core={cname} ctx=[{}] rel={:?} side={} decl={dname}", names.join(","), rel, if side == 0 { "lhs" } else { "rhs" }),
    }
}

// ---------- logic trees (family B) ----------
fn logic_trees(n: usize, memo: &mut Vec<Vec<Exp>>) -> Vec<Exp> {
    if let Some(v) = memo.get(n) {
        return v.clone();
    }
    let mut out = vec![];
    if n == 0 {
        out = vec![var("b"), var("c"), var("d"), num(0.0), num(1.0)];
    } else {
        for e in memo[n - 1].clone() {
            out.push(Exp::Not(e.clone().to_box()));
        }
        for ls in 0..n {
            let rs = n - 1 - ls;
            for a in memo[ls].clone() {
                for b in memo[rs].clone() {
                    out.push(Exp::And(vec![a.clone(), b.clone()]));
                    out.push(Exp::Or(vec![a.clone(), b.clone()]));
                    out.push(Exp::Xor(a.clone().to_box(), b.clone().to_box()));
                    out.push(Exp::Implies(a.clone().to_box(), b.clone().to_box()));
                    out.push(Exp::Iff(a.clone().to_box(), b.clone().to_box()));
                }
            }
        }
        if n == 1 {
            let l = memo[0].clone();
            for a in &l[..3] {
                for b in &l[..3] {
                    for c in &l {
                        out.push(Exp::And(vec![a.clone(), b.clone(), c.clone()]));
                        out.push(Exp::Or(vec![a.clone(), b.clone(), c.clone()]));
                    }
                }
            }
            out.push(Exp::And(vec![]));
            out.push(Exp::Or(vec![]));
        }
    }
    memo.push(out.clone());
    out
}

pub fn family_b_trees(max_n: usize) -> Vec<Exp> {
    let mut memo = vec![];
    let mut all = vec![];
    for n in 0..=max_n {
        all.extend(logic_trees(n, &mut memo));
    }
    // every binary logic operator over operands that carry 0, 1 or 2 negations (3 to 5 operator nodes:
    // rewrites of negated operands such as contraposition or De Morgan)
    let negs = |v: &str| -> Vec<Exp> {
        let x = var(v);
        vec![x.clone(), Exp::Not(x.clone().to_box()), Exp::Not(Exp::Not(x.to_box()).to_box())]
    };
    for a in negs("b") {
        for b in negs("c") {
            all.push(Exp::And(vec![a.clone(), b.clone()]));
            all.push(Exp::Or(vec![a.clone(), b.clone()]));
            all.push(Exp::Xor(a.clone().to_box(), b.clone().to_box()));
            all.push(Exp::Implies(a.clone().to_box(), b.clone().to_box()));
            all.push(Exp::Iff(a.clone().to_box(), b.clone().to_box()));
            all.push(Exp::Not(Exp::Implies(a.clone().to_box(), b.clone().to_box()).to_box()));
        }
    }
    // every nesting of two binary logic operators over three distinct variables, plain and negated
    // (a false disjunction / implication has to be witnessed inside an asserted formula)
    let (b, c, d) = (var("b"), var("c"), var("d"));
    let mk = |k: usize, l: Exp, r: Exp| -> Exp {
        match k {
            0 => Exp::And(vec![l, r]),
            1 => Exp::Or(vec![l, r]),
            2 => Exp::Xor(l.to_box(), r.to_box()),
            3 => Exp::Implies(l.to_box(), r.to_box()),
            _ => Exp::Iff(l.to_box(), r.to_box()),
        }
    };
    for outer in 0..5 {
        for inner in 0..5 {
            let left = mk(outer, mk(inner, b.clone(), c.clone()), d.clone());
            let right = mk(outer, b.clone(), mk(inner, c.clone(), d.clone()));
            all.push(Exp::Not(left.clone().to_box()));
            all.push(Exp::Not(right.clone().to_box()));
            all.push(left);
            all.push(right);
        }
    }
    all
}
const B_FORMS: usize = 1 + 3 * 5 * 2;
pub fn family_b(trees: &[Exp], i: u64) -> Case {
    let t = trees[(i / B_FORMS as u64) as usize].clone();
    let form = (i % B_FORMS as u64) as usize;
    let vars = vec![("b".to_string(), Dom::Bool), ("c".to_string(), Dom::Bool), ("d".to_string(), Dom::Bool)];
    let (cons, fname) = if form == 0 {
        (SrcCons { lhs: t.clone(), rel: Rel::Eq, rhs: num(1.0), bare: true, name: "r".into() }, "bare".to_string())
    } else {
        let f = form - 1;
        let side = f % 2;
        let k = [-1.0, 0.0, 0.5, 1.0, 2.0][(f / 2) % 5];
        let rel = RELS[f / 10];
        let (l, r) = if side == 0 { (t.clone(), num(k)) } else { (num(k), t.clone()) };
        (SrcCons { lhs: l, rel, rhs: r, bare: false, name: "r".into() }, format!("{:?} {} side{}", rel, k, side))
    };
    let root = match &t {
        Exp::And(v) => format!("And{}", v.len()),
        Exp::Or(v) => format!("Or{}", v.len()),
        Exp::Not(_) => "Not".into(),
        Exp::Xor(_, _) => "Xor".into(),
        Exp::Implies(_, _) => "Implies".into(),
        Exp::Iff(_, _) => "Iff".into(),
        Exp::Number(_) => "Const".into(),
        _ => "Var".into(),
    };
    Case { model: SrcModel { vars, cons: vec![cons], sense: Sense::Satisfy, obj: num(0.0) }, signature: format!("logic root={root} form={fname}") }
}

// ---------- family C: bound feeders x consumers ----------
pub fn family_c_size() -> u64 {
    (feeders().len() * consumers().len()) as u64
}
fn feeders() -> Vec<(&'static str, Vec<(String, Dom)>, Vec<SrcCons>)> {
    let row = |lhs: Exp, rel: Rel, rhs: Exp| SrcCons { lhs, rel, rhs, bare: false, name: String::new() };
    let x = || var("x");
    let y = || var("y");
    let free = |extra: Vec<(String, Dom)>| {
        let mut v = vec![("x".to_string(), Dom::Free)];
        v.extend(extra);
        v
    };
    vec![
        ("none", free(vec![]), vec![]),
        ("x>=-3,x<=2", free(vec![]), vec![row(x(), Rel::Ge, num(-3.0)), row(x(), Rel::Le, num(2.0))]),
        ("-2*x<=4,x<=1", free(vec![]), vec![row(bin(BinOp::Mul, num(-2.0), x()), Rel::Le, num(4.0)), row(x(), Rel::Le, num(1.0))]),
        ("x=y+1,y in [-2,2]", free(vec![("y".to_string(), Dom::Real(-2.0, 2.0))]), vec![row(x(), Rel::Eq, bin(BinOp::Add, y(), num(1.0)))]),
        ("chain x=y+1,y=z/2,z in[-4,4]", free(vec![("y".to_string(), Dom::Free), ("z".to_string(), Dom::Real(-4.0, 4.0))]), vec![row(x(), Rel::Eq, bin(BinOp::Add, y(), num(1.0))), row(y(), Rel::Eq, bin(BinOp::Div, var("z"), num(2.0)))]),
        ("abs{x}<=2", free(vec![]), vec![row(Exp::Abs(x().to_box()), Rel::Le, num(2.0))]),
        ("max{x,-x}<=2.5", free(vec![]), vec![row(Exp::Max(vec![x(), neg(x())]), Rel::Le, num(2.5))]),
        ("min{x,1}>=-1,x<=3", free(vec![]), vec![row(Exp::Min(vec![x(), num(1.0)]), Rel::Ge, num(-1.0)), row(x(), Rel::Le, num(3.0))]),
        ("only-lower x>=-1", free(vec![]), vec![row(x(), Rel::Ge, num(-1.0))]),
        ("contradictory x>=2,x<=1", free(vec![]), vec![row(x(), Rel::Ge, num(2.0)), row(x(), Rel::Le, num(1.0))]),
        ("x=i+0.5,i Int(-2,2)", free(vec![("i".to_string(), Dom::Int(-2, 2))]), vec![row(x(), Rel::Eq, bin(BinOp::Add, var("i"), num(0.5)))]),
        ("1.9x<=3.8,x>=-1", free(vec![]), vec![row(bin(BinOp::Mul, num(1.9), x()), Rel::Le, num(3.8)), row(x(), Rel::Ge, num(-1.0))]),
    ]
}
fn consumers() -> Vec<(&'static str, SrcCons)> {
    let row = |lhs: Exp, rel: Rel, rhs: Exp| SrcCons { lhs, rel, rhs, bare: false, name: "use".into() };
    let x = || var("x");
    let absx = || Exp::Abs(x().to_box());
    vec![
        ("abs{x}=1", row(absx(), Rel::Eq, num(1.0))),
        ("abs{x}>=1", row(absx(), Rel::Ge, num(1.0))),
        ("abs{x}<=1", row(absx(), Rel::Le, num(1.0))),
        ("abs{x-1}>=0.5", row(Exp::Abs(bin(BinOp::Sub, x(), num(1.0)).to_box()), Rel::Ge, num(0.5))),
        ("max{x,1}<=2", row(Exp::Max(vec![x(), num(1.0)]), Rel::Le, num(2.0))),
        ("max{x,1}>=1.5", row(Exp::Max(vec![x(), num(1.0)]), Rel::Ge, num(1.5))),
        ("max{x,1}=1.5", row(Exp::Max(vec![x(), num(1.0)]), Rel::Eq, num(1.5))),
        ("min{x,0}<=-0.5", row(Exp::Min(vec![x(), num(0.0)]), Rel::Le, num(-0.5))),
        ("min{x,0}>=-0.5", row(Exp::Min(vec![x(), num(0.0)]), Rel::Ge, num(-0.5))),
        ("-abs{x}<=-1", row(neg(absx()), Rel::Le, num(-1.0))),
        ("2-abs{x}>=1", row(bin(BinOp::Sub, num(2.0), absx()), Rel::Ge, num(1.0))),
        ("abs{x}/-2<=-0.5", row(bin(BinOp::Div, absx(), num(-2.0)), Rel::Le, num(-0.5))),
        ("max{x,-x}=abs{x}", row(Exp::Max(vec![x(), neg(x())]), Rel::Eq, absx())),
        ("abs{x}-abs{x}=0", row(bin(BinOp::Sub, absx(), absx()), Rel::Eq, num(0.0))),
        ("x>=max{x-1,0}", row(x(), Rel::Ge, Exp::Max(vec![bin(BinOp::Sub, x(), num(1.0)), num(0.0)]))),
    ]
}
pub fn family_c(i: u64) -> Case {
    let fs = feeders();
    let cs = consumers();
    let (fname, vars, mut cons) = fs[(i as usize) / cs.len()].clone();
    let (cname, c) = cs[(i as usize) % cs.len()].clone();
    cons.push(c);
    Case { model: SrcModel { vars, cons, sense: Sense::Satisfy, obj: num(0.0) }, signature: format!("feeder={fname} consumer={cname}") }
}

// ---------- family D: several continuous variables with different ranges ----------
/// x is the variable decided on the whole real line; w and y are decided on every grid line (slice mode)
pub fn cores_d() -> Vec<(&'static str, Exp)> {
    let x = || var("x");
    let y = || var("y");
    let w = || var("w");
    let sub = |a: Exp, k: f64| bin(BinOp::Sub, a, num(k));
    vec![
        ("max{w,x,y}", Exp::Max(vec![w(), x(), y()])),
        ("min{w,x,y}", Exp::Min(vec![w(), x(), y()])),
        ("max{x,y}", Exp::Max(vec![x(), y()])),
        ("min{y,x}", Exp::Min(vec![y(), x()])),
        ("abs{x-y}", Exp::Abs(bin(BinOp::Sub, x(), y()).to_box())),
        ("max{w-5,x,y-1}", Exp::Max(vec![sub(w(), 5.0), x(), sub(y(), 1.0)])),
        ("min{w+2,y,x+1}", Exp::Min(vec![bin(BinOp::Add, w(), num(2.0)), y(), bin(BinOp::Add, x(), num(1.0))])),
        ("abs{max{x,y}}", Exp::Abs(Exp::Max(vec![x(), y()]).to_box())),
        ("min{abs{x},y}", Exp::Min(vec![Exp::Abs(x().to_box()), y()])),
        ("max{x+y,w}", Exp::Max(vec![bin(BinOp::Add, x(), y()), w()])),
        ("x-min{y,w}", bin(BinOp::Sub, x(), Exp::Min(vec![y(), w()]))),
        ("max{y,w}+x", bin(BinOp::Add, Exp::Max(vec![y(), w()]), x())),
        ("abs{x}+abs{y}", bin(BinOp::Add, Exp::Abs(x().to_box()), Exp::Abs(y().to_box()))),
        ("max{x,0}-max{y,0}", bin(BinOp::Sub, Exp::Max(vec![x(), num(0.0)]), Exp::Max(vec![y(), num(0.0)]))),
    ]
}
/// includes the ends of the ranges of w (2, 4) and y (-1, 2.5): ties between a bound and the row limit
const RHS_D: [f64; 6] = [-1.0, 0.0, 0.5, 2.0, 2.5, 4.0];
pub fn family_d_size(depth: usize) -> u64 {
    let nctx: u64 = if depth == 0 { 1 } else { CTX_NAMES.len() as u64 };
    // the other side of the relation is one of the constants or the variable w
    cores_d().len() as u64 * nctx * 3 * (RHS_D.len() as u64 + 1) * 2 * 2
}
pub fn family_d(i: u64, depth: usize) -> Case {
    let cs = cores_d();
    let mut d = Digits(i);
    let int_y = d.pick(2) == 1;
    let side = d.pick(2);
    let rhs_i = d.pick(RHS_D.len() + 1);
    let other = if rhs_i < RHS_D.len() { num(RHS_D[rhs_i]) } else { var("w") };
    let rel = *d.of(&RELS);
    let k = if depth == 0 { 0 } else { d.pick(CTX_NAMES.len()) };
    let (cname, core) = d.of(&cs).clone();
    let e = ctx(k, core);
    let (lhs, rhs_e) = if side == 0 { (e, other) } else { (other, e) };
    let vars = vec![("x".to_string(), Dom::Real(-3.0, 3.0)), ("w".to_string(), Dom::Real(2.0, 4.0)), ("y".to_string(), if int_y { Dom::Int(-1, 2) } else { Dom::Real(-1.0, 2.5) })];
    Case {
        model: SrcModel { vars, cons: vec![SrcCons { lhs, rel, rhs: rhs_e, bare: false, name: "r".into() }], sense: Sense::Satisfy, obj: num(0.0) },
        signature: format!("multi core={cname} ctx=[{}] rel={:?} side={} y={}", CTX_NAMES[k], rel, if side == 0 { "lhs" } else { "rhs" }, if int_y { "int" } else { "real" }),
    }
}

// ---------- the decision procedure ----------

pub fn grid() -> Vec<Q> {
    vec![q(-3), q(-1), q(0), qr(1, 3), qr(7, 10), q(1), q(2), qr(5, 2), q(4)]
}

/// Decide, for one compiled model, equality of the source feasible set and the projection of the linear
/// model, for every real value of one continuous variable and all assignments of the discrete ones.
/// `on_point(env, source_sat, linear_sat)` lets C02/C07 piggy-back. Returns false if not decidable here.
pub fn compare_feasible_sets(case: &Case, comp: &Compiled, l: &mut Local, prop: &str) -> bool {
    let m = &case.model;
    // continuous variables present in the linear model; absent ones are fixed at an in-domain value
    let cont: Vec<String> = m.continuous_vars().iter().map(|&i| m.vars[i].0.clone()).collect();
    let in_lm = |n: &str| comp.declared.iter().any(|d| d.0 == n);
    // a declared variable that occurs in the source must be in the linear model
    let refs = m.references();
    for (n, _) in &m.vars {
        if refs.contains(n) && !in_lm(n) {
            l.violation(format!("declared-variable-missing:{}", case.signature), format!("variable {n} occurs in the source but not in the linear model"), json!({"model": m.show(), "linear": comp.spec.show()}));
            return true;
        }
    }
    let x = cont.iter().find(|n| in_lm(n)).cloned();
    if let Some(x) = &x {
        if m.cons.iter().any(|c| occurs_under_logic(&c.lhs, x, false) || occurs_under_logic(&c.rhs, x, false)) {
            l.count("skipped:continuous-variable-under-logic-operator");
            return false;
        }
    }
    // models with constants that are not small dyadic rationals are compiled with rounding: their
    // feasible sets are compared on points at least 1e-6 away from every boundary (epsilon-relaxation)
    let inexact = is_inexact(m);
    if inexact {
        l.count("models_in_inexact_regime");
    }
    let envs = discrete_assignments(m, x.as_deref(), &grid());
    let case_json = |env: &Env, what: &str| json!({"model": m.show(), "linear": comp.spec.show(), "assignment": env.iter().map(|(k, v)| format!("{k}={v}")).collect::<Vec<_>>(), "what": what, "signature": case.signature});
    for d in envs {
        // variables not in the linear model take part in S only through d (their domain is in S)
        match &x {
            None => {
                let s = match m.sat(&d) {
                    Ok(s) => s,
                    Err(_) => {
                        l.count("skipped:source-undefined");
                        return false;
                    }
                };
                // declared variables missing from the LM are projected away: S must be judged modulo them
                let fixed: Env = d.iter().filter(|(k, _)| in_lm(k)).map(|(k, v)| (k.clone(), v.clone())).collect();
                let lin = comp.extendable(&fixed);
                l.count("points_compared");
                if s && !lin {
                    l.violation(format!("{prop}:feasible-point-cut-off:{}", case.signature), "a source-feasible assignment has no extension in the linear model", case_json(&d, "S and not L"));
                    return true;
                }
                if !s && lin {
                    // only a violation if no in-domain value of the projected-away variables makes S true;
                    // here every declared variable is fixed, so it is one
                    if d.len() == fixed.len() {
                        l.violation(format!("{prop}:infeasible-point-let-in:{}", case.signature), "a source-infeasible assignment extends to a feasible point of the linear model", case_json(&d, "L and not S"));
                        return true;
                    }
                }
            }
            Some(x) => {
                let fixed: Env = d.iter().filter(|(k, _)| in_lm(k)).map(|(k, v)| (k.clone(), v.clone())).collect();
                if fixed.len() != d.len() {
                    l.count("skipped:unused-declared-variable-with-continuous");
                }
                let proj = comp.project_x(x, &fixed, &[]);
                let mut pts = source_breakpoints(m, x, &d);
                pts.extend(interval_endpoints(&proj));
                pts.sort();
                pts.dedup();
                let points = if inexact { interior_points(&pts) } else { test_points(&pts) };
                // source verdict at every test point first (needed for the distance-to-feasible-set test)
                let mut verdicts: Vec<(Q, bool)> = vec![];
                for t in &points {
                    let mut env = d.clone();
                    env.insert(x.clone(), t.clone());
                    match m.sat(&env) {
                        Ok(s) => verdicts.push((t.clone(), s)),
                        Err(_) => {
                            l.count("skipped:source-undefined");
                            return false;
                        }
                    }
                }
                // derived bounds are computed in f64 (2/3 is published as 0.6666666666666666): a mismatch
                // within 1e-9 (the analyser's tolerance) of the other set's boundary is rounding, not a defect
                let tol = |t: &Q| crate::exact::qf(1e-9) * if t.abs() > q(1) { t.abs() } else { q(1) };
                let proj_relaxed = if verdicts.iter().any(|(t, s)| *s && !in_intervals(t, &proj)) { comp.project_x_relaxed(x, &fixed) } else { vec![] };
                let near_projection = |t: &Q| {
                    proj.iter().chain(proj_relaxed.iter()).any(|(lo, hi)| {
                        let e = tol(t);
                        lo.as_ref().map(|l| l - &e <= *t).unwrap_or(true) && hi.as_ref().map(|h| *t <= h + &e).unwrap_or(true)
                    })
                };
                let near_source = |t: &Q| verdicts.iter().any(|(u, s)| *s && (u - t).abs() <= tol(t));
                for (t, s) in verdicts.clone() {
                    let mut env = d.clone();
                    env.insert(x.clone(), t.clone());
                    let lin = in_intervals(&t, &proj);
                    l.count("points_compared");
                    if s != lin && ((s && near_projection(&t)) || (!s && near_source(&t))) {
                        l.count("mismatches_within_rounding_tolerance");
                        continue;
                    }
                    if s && !lin {
                        l.violation(format!("{prop}:feasible-point-cut-off:{}", case.signature), format!("{x}={t} satisfies the source but has no extension in the linear model"), case_json(&env, "S and not L"));
                        return true;
                    }
                    if !s && lin && fixed.len() == d.len() {
                        l.violation(format!("{prop}:infeasible-point-let-in:{}", case.signature), format!("{x}={t} violates the source but extends to a feasible point of the linear model"), case_json(&env, "L and not S"));
                        return true;
                    }
                }
            }
        }
    }
    true
}

fn constants_of(e: &Exp, out: &mut Vec<f64>) {
    match e {
        Exp::Number(n) => out.push(*n),
        Exp::Variable(_) => {}
        Exp::Abs(i) | Exp::Not(i) | Exp::UnOp(_, i) => constants_of(i, out),
        Exp::Min(v) | Exp::Max(v) | Exp::And(v) | Exp::Or(v) => v.iter().for_each(|x| constants_of(x, out)),
        Exp::Xor(l, r) | Exp::Implies(l, r) | Exp::Iff(l, r) | Exp::BinOp(_, l, r) => {
            constants_of(l, out);
            constants_of(r, out);
        }
    }
}

/// true when some constant is not a multiple of 1/64 (then f64 arithmetic inside the compiler may round)
pub fn is_inexact(m: &SrcModel) -> bool {
    let mut cs = vec![];
    for c in &m.cons {
        constants_of(&c.lhs, &mut cs);
        constants_of(&c.rhs, &mut cs);
    }
    constants_of(&m.obj, &mut cs);
    for (_, d) in &m.vars {
        let (lo, hi) = d.bounds();
        cs.push(lo);
        cs.push(hi);
    }
    cs.iter().any(|c| c.is_finite() && (c * 64.0).fract() != 0.0)
}

/// midpoints of cells wider than 2e-6 and points 1 beyond each end
pub fn interior_points(pts: &[Q]) -> Vec<Q> {
    if pts.is_empty() {
        return vec![q(0), q(-7), q(7)];
    }
    let eps = qr(1, 500_000);
    let mut out = vec![&pts[0] - q(1)];
    for w in pts.windows(2) {
        if &w[1] - &w[0] > eps {
            out.push((&w[0] + &w[1]) / q(2));
        }
    }
    out.push(&pts[pts.len() - 1] + q(1));
    out
}

pub fn lowering_features(comp: &Compiled, l: &mut Local) {
    for &i in &comp.aux {
        let n = &comp.spec.vars[i].0;
        let kind = if n.contains("_select_") {
            "selector"
        } else if n.ends_with("_positive") {
            "abs-sign-binary"
        } else if n.starts_with("$abs") {
            "abs-aux"
        } else if n.starts_with("$min") {
            "min-aux"
        } else if n.starts_with("$max") {
            "max-aux"
        } else if n.starts_with("$logic_witness") {
            "logic-witness"
        } else {
            "reified-logic"
        };
        l.count(&format!("lowering:{kind}"));
    }
    if comp.aux.is_empty() {
        l.count("lowering:no-auxiliary");
    }
}

/// declared variables that occur nowhere are projected away on both sides (their domain is non-empty)
pub fn drop_unreferenced(case: &Case) -> Case {
    let refs = case.model.references();
    let mut m = case.model.clone();
    m.vars.retain(|v| refs.contains(&v.0));
    Case { model: m, signature: case.signature.clone() }
}

pub fn check_case(case: &Case, l: &mut Local) {
    let case = &drop_unreferenced(case);
    let m = &case.model;
    let lm = match crate::core::catch(|| m.compile()) {
        Err(p) => {
            l.violation(format!("panic:{}", case.signature), format!("linearize panicked: {p}"), json!({"model": m.show()}));
            return;
        }
        Ok(Err(e)) => {
            let kind = format!("{:?}", e);
            l.count(&format!("rejected:{}", kind.split(|c: char| c == '(' || c == ' ' || c == '{').next().unwrap_or("")));
            return;
        }
        Ok(Ok(lm)) => lm,
    };
    l.count("compiled");
    let Some(comp) = Compiled::new(&lm, m) else {
        l.count("skipped:strict-comparison");
        return;
    };
    lowering_features(&comp, l);
    if !comp.aux.is_empty() || lm.constraints().len() != m.cons.len() {
        l.nontrivial(&m.show());
    }
    l.sample(|| json!({"model": m.show(), "linear": comp.spec.show(), "signature": case.signature}));
    if compare_feasible_sets(case, &comp, l, "C01") {
        l.count("models_decided");
    }
}

pub fn run(mut run: Run) -> ! {
    crate::core::silence_panics();
    run.isolate = true;
    run.case_timeout_s = 60.0;
    let quick = run.quick();
    let depth = if quick { 1 } else { 2 };
    run.rule = format!("Model values built through the public constructors (usage marks as the transformer sets them): family A = {} cores (abs/min/max nests, logic values in arithmetic, dominated and equal operands) x every chain of <= {depth} contexts from 14 (positive/negative/zero scale, a unary minus at a subtracted position of a chain, negation, subtraction on either side, division by +-2, abs, min, max, minus x) x 3 relations x 7 constants (incl. the ends +-3 of the declared ranges) x both sides x 8 declaration forms (declared, row-derived, scaled-row-derived, unbounded, half-bounded, integer), family AX = the same at depth <= 1 over two more declaration forms (single-point integer range, finite range of +-1e18 with a bounding row, an integer range next to rows that cancel to a true constant comparison); family B = every logic tree with <= 2 operator nodes over b,c,d,0,1 (incl. n-ary and empty and/or), plus every binary logic operator over operands with 0, 1 or 2 negations and every nesting of two binary logic operators over three variables (plain and negated), x bare assertion and 30 comparison forms; family C = 12 bound feeders x 15 consumers; family D = 14 cores over three variables with different ranges (x real, w real, y real or integer; min/max with three operands, nested blocks, sums of blocks) in every context (thorough) x 3 relations x (6 constants incl. the range ends of w and y, or the variable w) x both sides, decided for every real x on every grid line of the other continuous variables; each compiled model is decided exactly: all assignments of the discrete variables x every cell (breakpoints, midpoints, beyond-ends) of the region partition of the continuous one; distinct = model text; non-trivial = compiled with at least one auxiliary or changed row count", cores().len());
    run.assume("exact source semantics (refsem) and exact projection of the linear model: integer auxiliaries enumerated, continuous auxiliaries by exact LP; the projection's interval endpoints are added to the test points, so S = L is decided on the whole real line of one continuous variable; extra continuous variables are checked on a 9-point rational grid (slice mode)");
    run.assume("models in which the continuous variable occurs under a logic operator, or whose source is undefined at a test point, are skipped and counted");
    let sa = family_a_size(depth, quick);
    run.family("A-core-in-context", sa, move |i, l| {
        let c = family_a(i, depth, quick);
        check_case(&c, l);
    });
    run.family("AX-single-point-integer-range", family_ax_size(), |i, l| check_case(&family_ax(i, 0), l));
    if quick {
        run.family("AXC-rows-that-cancel", family_ax0_size(), |i, l| check_case(&family_ax0(i, 2), l));
    } else {
        run.family("AXC-rows-that-cancel", family_ax_size(), |i, l| check_case(&family_ax(i, 2), l));
    }
    if !quick {
        run.family("AXH-huge-finite-range", family_ax_size(), |i, l| check_case(&family_ax(i, 1), l));
    }
    let trees = std::sync::Arc::new(family_b_trees(2));
    let t2 = trees.clone();
    // quick: bare assertion and three comparison forms; thorough: all 31 forms
    let forms: Vec<usize> = if quick { vec![0, 3, 18, 27] } else { (0..B_FORMS).collect() };
    let nf = forms.len() as u64;
    run.family("B-logic-assertions", trees.len() as u64 * nf, move |i, l| {
        let c = family_b(&t2, (i / nf) * B_FORMS as u64 + forms[(i % nf) as usize] as u64);
        check_case(&c, l);
    });
    let ddepth = if quick { 0 } else { 1 };
    run.family("D-several-continuous-variables", family_d_size(ddepth), move |i, l| {
        check_case(&family_d(i, ddepth), l);
    });
    run.family("C-bound-feeders", family_c_size(), |i, l| {
        let c = family_c(i);
        check_case(&c, l);
    });
    for k in ["compiled", "models_decided", "points_compared", "lowering:abs-aux", "lowering:selector", "lowering:abs-sign-binary", "lowering:reified-logic", "lowering:logic-witness", "lowering:no-auxiliary", "rejected:MissingFiniteBounds"] {
        run.require(k);
    }
    run.finish()
}
