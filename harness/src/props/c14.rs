//! C14 — every simplex step preserves equivalence, feasibility and monotonicity.
//! The tableau simplex is explored as a transition system (states = tableaux, transitions = pivots);
//! an exact rational model of every visited state is derived from the *standard form* and the
//! state's basis, and compared with the implementation's tableau (conformance on every state).
use crate::core::{Local, Run, hash_of};
use crate::exact::{self, LpResult, Q, q, qf, to_f64};
use crate::lm::{LmFamily, LmSpec, Sense};
use crate::props::c13::{StdForm, read_std};
use num_traits::{Signed, Zero};
use rooc::verif_pivots::RecordedPivot;
use rooc::{SimplexError, Tableau};
use serde_json::json;

const TOL: f64 = 1e-7;

/// exact canonical tableau of system [A|b], costs c, for the given basis (row i has its unit in basis[i])
pub struct ExactTableau {
    pub a: Vec<Vec<Q>>,
    pub b: Vec<Q>,
    pub c: Vec<Q>,
    /// c_B . b  (objective value of the basic solution)
    pub value: Q,
}

/// Gauss-Jordan on the basis columns. Returns None if the basis columns are dependent or
/// do not span the row space (a non-basic row remains).
pub fn canonical(a: &[Vec<Q>], b: &[Q], c: &[Q], basis: &[usize]) -> Result<ExactTableau, String> {
    let m = a.len();
    let n = c.len();
    let mut t: Vec<Vec<Q>> = a.iter().zip(b).map(|(r, bi)| {
        let mut r = r.clone();
        r.push(bi.clone());
        r
    }).collect();
    let mut row_of: Vec<Option<usize>> = vec![None; basis.len()];
    let mut used = vec![false; m];
    for (k, &col) in basis.iter().enumerate() {
        if col >= n {
            return Err(format!("basis column {col} out of range"));
        }
        let p = (0..m).find(|&r| !used[r] && !t[r][col].is_zero());
        let Some(p) = p else { return Err(format!("basis column {col} is dependent on the previous ones")) };
        used[p] = true;
        row_of[k] = Some(p);
        let pv = t[p][col].clone();
        for v in t[p].iter_mut() {
            *v = &*v / &pv;
        }
        let prow = t[p].clone();
        for r in 0..m {
            if r != p && !t[r][col].is_zero() {
                let f = t[r][col].clone();
                for j in 0..=n {
                    if !prow[j].is_zero() {
                        let d = &f * &prow[j];
                        t[r][j] -= d;
                    }
                }
            }
        }
    }
    // leftover rows must vanish (redundant); a non-zero leftover means the basis does not determine the system
    for r in 0..m {
        if !used[r] {
            if t[r][..n].iter().any(|v| !v.is_zero()) {
                return Err("basis does not span the row space of the system".into());
            }
            if !t[r][n].is_zero() {
                return Err("system is inconsistent (0 = nonzero)".into());
            }
        }
    }
    let mut ea = vec![];
    let mut eb = vec![];
    for k in 0..basis.len() {
        let r = row_of[k].unwrap();
        eb.push(t[r][n].clone());
        ea.push(t[r][..n].to_vec());
    }
    let mut ec = c.to_vec();
    let mut value = Q::zero();
    for (k, &col) in basis.iter().enumerate() {
        let cb = c[col].clone();
        if !cb.is_zero() {
            for j in 0..n {
                let d = &cb * &ea[k][j];
                ec[j] -= d;
            }
            value += &cb * &eb[k];
        }
    }
    Ok(ExactTableau { a: ea, b: eb, c: ec, value })
}

struct System {
    a: Vec<Vec<Q>>,
    b: Vec<Q>,
    c: Vec<Q>,
}

fn phase2_system(std: &StdForm) -> System {
    System {
        a: std.rows.iter().map(|r| r.0.iter().map(|v| qf(*v)).collect()).collect(),
        b: std.rows.iter().map(|r| qf(r.1)).collect(),
        c: std.obj.iter().map(|v| qf(*v)).collect(),
    }
}
fn phase1_system(std: &StdForm) -> System {
    let m = std.rows.len();
    let n = std.vars.len();
    let mut a = vec![];
    for (i, r) in std.rows.iter().enumerate() {
        let mut row: Vec<Q> = r.0.iter().map(|v| qf(*v)).collect();
        for j in 0..m {
            row.push(if i == j { q(1) } else { q(0) });
        }
        a.push(row);
    }
    let mut c = vec![q(0); n];
    c.extend(vec![q(1); m]);
    System { a, b: std.rows.iter().map(|r| qf(r.1)).collect(), c }
}

fn close(x: f64, e: &Q) -> bool {
    let ev = to_f64(e);
    (x - ev).abs() <= TOL * ev.abs().max(1.0)
}

/// compare an implementation tableau with the exact canonical tableau of its basis
fn conform(t: &Tableau, sys: &System) -> Result<ExactTableau, String> {
    let basis = t.in_basis().clone();
    let ex = canonical(&sys.a, &sys.b, &sys.c, &basis)?;
    let a = t.a_matrix();
    if a.len() != ex.a.len() {
        return Err(format!("tableau has {} rows, exact canonical form has {}", a.len(), ex.a.len()));
    }
    for i in 0..a.len() {
        if a[i].len() != ex.a[i].len() {
            return Err("row length mismatch".into());
        }
        for j in 0..a[i].len() {
            if !close(a[i][j], &ex.a[i][j]) {
                return Err(format!("A[{i}][{j}] = {} but the equivalent system has {}", a[i][j], ex.a[i][j]));
            }
        }
        if !close(t.b_vec()[i], &ex.b[i]) {
            return Err(format!("b[{i}] = {} but the equivalent system has {}", t.b_vec()[i], ex.b[i]));
        }
    }
    for j in 0..ex.c.len() {
        if !close(t.c_vec()[j], &ex.c[j]) {
            return Err(format!("reduced cost c[{j}] = {} but exact is {}", t.c_vec()[j], ex.c[j]));
        }
    }
    // rooc keeps current_value = -(c_B . b)
    if !close(-t.current_value(), &ex.value) {
        return Err(format!("current_value = {} but -(c_B.b) = {}", t.current_value(), -ex.value.clone()));
    }
    Ok(ex)
}

fn show_tableau(t: &Tableau) -> serde_json::Value {
    json!({"a": t.a_matrix(), "b": t.b_vec(), "c": t.c_vec(), "basis": t.in_basis(), "value": t.current_value(), "vars": t.variables()})
}

/// check one recorded pivot sequence against the exact model; returns number of transitions validated
fn check_trace(trace: &[RecordedPivot], std: &StdForm, driver: &str, spec: &LmSpec, l: &mut Local) -> bool {
    let n = std.vars.len();
    let p2 = phase2_system(std);
    let p1 = phase1_system(std);
    let mut ok = true;
    let mut prev_value: Option<(bool, Q)> = None;
    for (k, pv) in trace.iter().enumerate() {
        let is_p1 = pv.before.c_vec().len() > n;
        let sys = if is_p1 { &p1 } else { &p2 };
        let case = |what: &str| json!({"model": spec.show(), "driver": driver, "pivot_index": k, "phase": if is_p1 {1} else {2}, "what": what,
            "before": show_tableau(&pv.before), "entering": pv.entering, "leaving_row": pv.leaving_row, "after": show_tableau(&pv.after)});
        l.count("transitions");
        l.set_insert("states", &state_key(spec, &pv.before));
        l.set_insert("states", &state_key(spec, &pv.after));
        // conformance of the source state
        let exb = match conform(&pv.before, sys) {
            Ok(e) => e,
            Err(e) => {
                l.violation(format!("{driver}:state-not-equivalent"), format!("state before pivot {k}: {e}"), case(&e));
                ok = false;
                break;
            }
        };
        // invariants on the exact model of the source state; order comparisons carry a slack of 1e-9 because
        // decimal data (0.9 / 0.3 against 0.3 / 0.1) makes ties of the written model differ by 1e-16 in binary
        let slack = qf(1e-9);
        let below = |v: &Q, w: &Q| v < &(w - &slack * (Q::from_integer(1.into()) + w.abs()));
        let zero = Q::from_integer(0.into());
        if exb.b.iter().any(|v| below(v, &zero)) {
            l.violation(format!("{driver}:negative-basic-solution"), format!("basic solution negative before pivot {k}"), case("b<0"));
            ok = false;
        }
        // legality of the pivot in the exact model
        let h = pv.entering;
        let t = pv.leaving_row;
        if h >= exb.c.len() || t >= exb.a.len() {
            l.violation(format!("{driver}:pivot-out-of-range"), "pivot indices out of range", case("range"));
            ok = false;
            break;
        }
        if pv.before.in_basis().contains(&h) {
            l.violation(format!("{driver}:entering-is-basic"), format!("entering column {h} is already basic"), case("entering basic"));
            ok = false;
        }
        if !exb.c[h].is_negative() {
            l.violation(format!("{driver}:entering-not-improving"), format!("entering column {h} has exact reduced cost {} >= 0", exb.c[h]), case("reduced cost"));
            ok = false;
        }
        if !exb.a[t][h].is_positive() {
            l.violation(format!("{driver}:pivot-element-not-positive"), format!("pivot element is {}", exb.a[t][h]), case("pivot element"));
            ok = false;
            break;
        }
        let ratio = &exb.b[t] / &exb.a[t][h];
        let mut tie = false;
        for i in 0..exb.a.len() {
            if i != t && exb.a[i][h].is_positive() {
                let r = &exb.b[i] / &exb.a[i][h];
                if below(&r, &ratio) {
                    l.violation(format!("{driver}:ratio-test-not-minimal"), format!("row {i} has ratio {r} < chosen {ratio}"), case("ratio"));
                    ok = false;
                }
                if r == ratio {
                    tie = true;
                }
            }
        }
        if tie {
            l.count("ratio_ties");
        }
        if ratio.is_zero() {
            l.count("degenerate_pivots");
        }
        // conformance of the target state; its basis must be before.basis with row t replaced by h
        let mut expect_basis = pv.before.in_basis().clone();
        expect_basis[t] = h;
        if pv.after.in_basis() != &expect_basis {
            l.violation(format!("{driver}:basis-update"), "basis after the pivot is not the old basis with the leaving row replaced", case("basis"));
            ok = false;
            break;
        }
        let exa = match conform(&pv.after, sys) {
            Ok(e) => e,
            Err(e) => {
                l.violation(format!("{driver}:state-not-equivalent"), format!("state after pivot {k}: {e}"), case(&e));
                ok = false;
                break;
            }
        };
        if exa.b.iter().any(|v| below(v, &zero)) {
            l.violation(format!("{driver}:negative-basic-solution"), format!("basic solution negative after pivot {k}"), case("b<0"));
            ok = false;
        }
        if below(&exb.value, &exa.value) {
            l.violation(format!("{driver}:objective-worsened"), format!("objective went from {} to {}", exb.value, exa.value), case("monotone"));
            ok = false;
        }
        // chaining: consecutive pivots of the same phase must start where the previous ended
        if let Some((p1prev, v)) = &prev_value {
            if *p1prev == is_p1 && &exb.value != v && trace[k - 1].after.in_basis() == pv.before.in_basis() {
                l.violation(format!("{driver}:value-jump"), "objective value differs between consecutive states with the same basis", case("chain"));
                ok = false;
            }
        }
        prev_value = Some((is_p1, exa.value.clone()));
        if !ok {
            break;
        }
    }
    ok
}

fn state_key(spec: &LmSpec, t: &Tableau) -> u64 {
    let bits: Vec<u64> = t.a_matrix().iter().flatten().chain(t.b_vec().iter()).chain(t.c_vec().iter()).map(|v| v.to_bits()).collect();
    hash_of(&(spec.canon_hash(), bits, t.in_basis().clone()))
}

pub fn check_model(spec: &LmSpec, l: &mut Local) {
    let lm = spec.to_rooc();
    let std_model = match lm.clone().into_standard_form() {
        Ok(s) => s,
        Err(_) => {
            l.count("not-standardisable");
            return;
        }
    };
    let std = read_std(&std_model);
    let oracle = exact::solve_lp(&spec.to_exact());
    let oname = match &oracle {
        LpResult::Optimal { .. } => "optimal",
        LpResult::Infeasible => "infeasible",
        LpResult::Unbounded => "unbounded",
    };
    l.count(&format!("oracle:{oname}"));
    // phase 1 / canonical start, recorded
    rooc::verif_pivots::start();
    let start = crate::core::catch(|| std_model.clone().into_tableau());
    let p1_trace = rooc::verif_pivots::take();
    let case0 = || json!({"model": spec.show(), "standard": std.show()});
    let tableau = match start {
        Err(p) => {
            l.violation("into_tableau:panic", format!("into_tableau panicked: {p}"), case0());
            return;
        }
        Ok(Err(e)) => {
            let msg = e.to_string();
            l.count("start:error");
            if msg.starts_with("Infesible") {
                if oname != "infeasible" {
                    l.violation("into_tableau:infeasible-for-feasible", format!("phase one reports infeasible but the model is {oname}"), case0());
                }
            } else {
                l.violation("into_tableau:error", format!("cannot build a canonical tableau: {msg}"), case0());
            }
            if !p1_trace.is_empty() {
                l.count("traces");
                if check_trace(&p1_trace, &std, "phase1", spec, l) {
                    l.count("traces_validated");
                }
            }
            return;
        }
        Ok(Ok(t)) => t,
    };
    if oname == "infeasible" {
        l.violation("into_tableau:canonical-for-infeasible", "a canonical tableau was produced for an infeasible model", case0());
        return;
    }
    if p1_trace.is_empty() {
        l.count("start:direct-basis");
    } else {
        l.count("start:two-phase");
        l.count("traces");
        if check_trace(&p1_trace, &std, "phase1", spec, l) {
            l.count("traces_validated");
        }
        if tableau.a_matrix().len() < std.rows.len() {
            l.count("start:rows-dropped");
        }
    }
    // the canonical start state must itself be equivalent to the standard form and feasible
    let p2 = phase2_system(&std);
    match conform(&tableau, &p2) {
        Err(e) => {
            l.violation("start:state-not-equivalent", format!("initial canonical tableau: {e}"), json!({"model": spec.show(), "tableau": show_tableau(&tableau)}));
            return;
        }
        Ok(ex) => {
            if ex.b.iter().any(|v| v.is_negative()) {
                l.violation("start:negative-basic-solution", "initial basic solution is negative", json!({"model": spec.show(), "tableau": show_tableau(&tableau)}));
                return;
            }
        }
    }
    l.nontrivial(&spec.canon_hash());
    l.sample(|| json!({"model": spec.show(), "start_basis": tableau.in_basis(), "phase1_pivots": p1_trace.len()}));
    // three drivers over the same transition function
    for driver in ["solve", "solve_step_by_step", "raw_step"] {
        let mut t = tableau.clone();
        rooc::verif_pivots::start();
        let res: Result<Result<Option<(Tableau, f64)>, SimplexError>, String> = crate::core::catch(|| match driver {
            "solve" => t.solve(1000).map(|o| Some((o.tableau().clone(), o.optimal_value()))),
            "solve_step_by_step" => t.solve_step_by_step(1000).map(|o| Some((o.result().tableau().clone(), o.result().optimal_value()))),
            _ => {
                let mut fin = None;
                for _ in 0..200 {
                    match t.step(&[])? {
                        rooc::StepAction::Finished => {
                            fin = Some(());
                            break;
                        }
                        rooc::StepAction::Pivot { .. } => {}
                    }
                }
                Ok(fin.map(|_| (t.clone(), f64::NAN)))
            }
        });
        let trace = rooc::verif_pivots::take();
        l.count("traces");
        l.max("trace_length", trace.len() as u64);
        let case = |what: &str| json!({"model": spec.show(), "driver": driver, "what": what, "pivots": trace.len(), "start": show_tableau(&tableau)});
        let valid = check_trace(&trace, &std, driver, spec, l);
        if valid {
            l.count("traces_validated");
        }
        match res {
            Err(p) => l.violation(format!("{driver}:panic"), format!("panicked: {p}"), case("panic")),
            Ok(Err(SimplexError::Unbounded)) => {
                l.count(&format!("{driver}:unbounded"));
                if oname != "unbounded" {
                    l.violation(format!("{driver}:unbounded-for-{oname}"), format!("reports unbounded but the model is {oname}"), case("unbounded"));
                }
            }
            Ok(Err(SimplexError::IterationLimitReached)) => {
                l.violation(format!("{driver}:iteration-limit"), "iteration limit reached on a small model (cycling)", case("limit"));
            }
            Ok(Err(SimplexError::Other)) => l.violation(format!("{driver}:error"), "SimplexError::Other", case("other")),
            Ok(Ok(None)) => {
                // raw stepping without the anti-cycling fallback did not finish within the horizon
                l.count("raw_step:horizon-reached");
            }
            Ok(Ok(Some((fin, val)))) => {
                l.count(&format!("{driver}:finished"));
                match conform(&fin, &p2) {
                    Err(e) => l.violation(format!("{driver}:final-state-not-equivalent"), e, case("final")),
                    Ok(ex) => {
                        // optimality in the exact model (rooc's own tolerance on reduced costs is 1e-5)
                        if ex.c.iter().any(|c| to_f64(c) < -1e-5) {
                            l.violation(format!("{driver}:stopped-before-optimal"), "a reduced cost is still negative in the final state", case("not optimal"));
                        }
                        match &oracle {
                            LpResult::Optimal { value, .. } => {
                                let sign = if std.flip { -1.0 } else { 1.0 };
                                let got = sign * to_f64(&ex.value) + std.offset;
                                let z = to_f64(value);
                                if (got - z).abs() > 1e-6 * z.abs().max(1.0) {
                                    l.violation(format!("{driver}:final-value-not-optimal"), format!("final basic solution has objective {got}, optimum is {z}"), case("value"));
                                }
                                if !val.is_nan() && (val - z).abs() > 1e-6 * z.abs().max(1.0) {
                                    l.violation(format!("{driver}:reported-value-wrong"), format!("optimal_value() = {val}, optimum is {z}"), case("value"));
                                }
                            }
                            _ => l.violation(format!("{driver}:finished-for-{oname}"), format!("finished with an optimum but the model is {oname}"), case("status")),
                        }
                    }
                }
            }
        }
    }
}

fn families(quick: bool) -> Vec<LmFamily> {
    use crate::exact::Rel;
    use crate::lm::Dom;
    let mut v = vec![];
    v.push(LmFamily {
        name: "T1-n2m2",
        n: 2,
        m: 2,
        doms: if quick { vec![Dom::NonNeg, Dom::Free] } else { vec![Dom::NonNeg, Dom::Free, Dom::Real(-2.0, 3.0)] },
        coefs: vec![-1.0, 0.0, 1.0, 2.0],
        rhss: if quick { vec![0.0, 2.0] } else { vec![-1.0, 0.0, 2.0] },
        rels: vec![Rel::Le, Rel::Ge, Rel::Eq],
        objs: vec![-1.0, 0.0, 1.0],
        senses: vec![Sense::Min, Sense::Max],
        offsets: vec![0.0],
        named: false,
    });
    // three rows compete in the ratio test (ties with a smaller ratio in between)
    v.push(LmFamily {
        name: "T5-ratio-test-n2m3",
        n: 2,
        m: 3,
        doms: vec![Dom::NonNeg],
        coefs: vec![0.0, 1.0, 2.0],
        rhss: vec![0.0, 2.0, 4.0],
        rels: vec![Rel::Le],
        objs: vec![1.0, 2.0],
        senses: vec![Sense::Max],
        offsets: vec![0.0],
        named: false,
    });
    // one-decimal coefficients (not representable in binary): eliminations leave residues where structural zeros are
    v.push(LmFamily {
        name: "T7-decimals-n2m2",
        n: 2,
        m: 2,
        doms: vec![Dom::NonNeg],
        coefs: vec![-0.3, 0.0, 0.1, 0.2, 0.4],
        rhss: vec![0.3, 2.0],
        rels: vec![Rel::Le, Rel::Ge],
        objs: vec![0.5, 1.0],
        senses: vec![Sense::Max],
        offsets: vec![0.0],
        named: false,
    });
    // coefficients five orders of magnitude apart in one column (2^-7 next to 2048, dyadic: exact in binary)
    v.push(LmFamily {
        name: "T10-column-scales-n2m3",
        n: 2,
        m: 3,
        doms: vec![Dom::NonNeg],
        coefs: vec![0.0, 0.0078125, 1.0, 2048.0],
        rhss: vec![8.0, 1048576.0],
        rels: vec![Rel::Le],
        objs: vec![1.0, 2.0],
        senses: vec![Sense::Max],
        offsets: vec![0.0],
        named: false,
    });
    // right-hand sides around 1e6: candidate ratios differ by 5 in 1e6
    v.push(LmFamily {
        name: "T9-large-right-hand-sides-n2m3",
        n: 2,
        m: 3,
        doms: vec![Dom::NonNeg],
        coefs: vec![0.0, 1.0, 2.0],
        rhss: vec![400000.0, 1000000.0, 1000005.0],
        rels: vec![Rel::Le],
        objs: vec![2.0, 3.0],
        senses: vec![Sense::Max],
        offsets: vec![0.0],
        named: false,
    });
    if !quick {
        // coefficients 3 and 6: dividing a pivot row by 3 leaves thirds, so eliminations on rows that are exact
        // multiples of each other leave rounding residues (+-1e-16) where the exact tableau has zeros
        v.push(LmFamily {
            name: "T6-thirds-n2m2",
            n: 2,
            m: 2,
            doms: vec![Dom::NonNeg],
            coefs: vec![-3.0, -1.0, 0.0, 1.0, 3.0, 6.0],
            rhss: vec![0.0, 1.0, 5.0],
            rels: vec![Rel::Le, Rel::Ge, Rel::Eq],
            objs: vec![-1.0, 1.0, 3.0],
            senses: vec![Sense::Max],
            offsets: vec![0.0],
            named: false,
        });
        v.push(LmFamily {
            name: "T2-n3m2",
            n: 3,
            m: 2,
            doms: vec![Dom::NonNeg, Dom::Free],
            coefs: vec![-1.0, 0.0, 1.0],
            rhss: vec![0.0, 1.0],
            rels: vec![Rel::Eq, Rel::Ge, Rel::Le],
            objs: vec![-1.0, 1.0],
            senses: vec![Sense::Min],
            offsets: vec![0.0],
            named: false,
        });
        v.push(LmFamily {
            name: "T3-eqdense-n3m3",
            n: 3,
            m: 3,
            doms: vec![Dom::NonNeg],
            coefs: vec![-1.0, 0.0, 1.0],
            rhss: vec![0.0, 1.0],
            rels: vec![Rel::Eq],
            objs: vec![-1.0, 1.0],
            senses: vec![Sense::Min],
            offsets: vec![0.0],
            named: false,
        });
        v.push(LmFamily {
            name: "T4-degenerate-n3m3",
            n: 3,
            m: 3,
            doms: vec![Dom::NonNeg],
            coefs: vec![0.0, 1.0, 2.0],
            rhss: vec![0.0, 2.0],
            rels: vec![Rel::Le],
            objs: vec![1.0, 2.0],
            senses: vec![Sense::Max],
            offsets: vec![0.0],
            named: false,
        });
    } else {
        v.push(LmFamily {
            name: "T4q-degenerate-n3m2",
            n: 3,
            m: 2,
            doms: vec![Dom::NonNeg],
            coefs: vec![0.0, 1.0, 2.0],
            rhss: vec![0.0, 2.0],
            rels: vec![Rel::Le, Rel::Eq],
            objs: vec![1.0, 2.0],
            senses: vec![Sense::Max],
            offsets: vec![0.0],
            named: false,
        });
    }
    v
}

/// family TW: wide tableaux. n = 20..70 non-negative variables, 1..3 capacity rows; only a few columns
/// (chosen at positions p and q, anywhere including beyond column 32 and in the last place) can improve the objective
const WIDE_N: [usize; 7] = [20, 31, 32, 33, 34, 48, 70];
fn wide_cases() -> Vec<(usize, usize, usize, usize, bool)> {
    // (n, rows, p, q, max)
    let mut out = vec![];
    for &n in &WIDE_N {
        for m in 1..=3usize {
            let mut ps = vec![0, n / 2, n - 1];
            if n > 32 {
                ps.extend([31, 32, 33.min(n - 1)]);
            }
            ps.sort();
            ps.dedup();
            for &p in &ps {
                for &q in &[p, (p + 7) % n, n - 1] {
                    for max in [false, true] {
                        out.push((n, m, p, q, max));
                    }
                }
            }
        }
    }
    out
}
fn wide_model(n: usize, m: usize, p: usize, q: usize, max: bool) -> LmSpec {
    use crate::exact::Rel;
    use crate::lm::{Dom, Row};
    let vars: Vec<(String, Dom)> = (0..n).map(|j| (format!("x{j:02}"), Dom::NonNeg)).collect();
    // improving columns: p (rate 3) and q (rate 2); every other column makes the objective worse
    let sign = if max { 1.0 } else { -1.0 };
    let obj: Vec<f64> = (0..n).map(|j| if j == p { 3.0 * sign } else if j == q { 2.0 * sign } else { -sign * (1.0 + (j % 3) as f64) }).collect();
    let mut rows = vec![];
    for r in 0..m {
        // capacity rows with different weights on p and q, so that the ratio test decides which one leaves
        let coef: Vec<f64> = (0..n).map(|j| if j == p { 1.0 + r as f64 } else if j == q { 2.0 } else { ((j + r) % 2) as f64 }).collect();
        rows.push(Row { coef, rel: Rel::Le, rhs: 4.0 + 2.0 * r as f64, name: String::new() });
    }
    LmSpec { vars, rows, obj, offset: 0.0, sense: if max { Sense::Max } else { Sense::Min } }
}

pub fn run(mut run: Run) -> ! {
    crate::core::silence_panics();
    run.isolate = true;
    run.case_timeout_s = 10.0;
    run.rule = "all pivot histories the tableau simplex produces (phase one inside into_tableau, then solve / solve_step_by_step / raw step) on every member of finite continuous LinearModel families plus degenerate specials (Beale, Klee-Minty, ties, dependent equalities) and wide tableaux (20..70 variables, 1..3 rows, the improving columns at every interesting position incl. beyond column 32 and the last one); states = bit-exact tableaux; every transition is validated against the exact canonical tableau derived from the standard form and the state's basis; non-trivial = model for which a canonical start tableau exists".into();
    run.assume("exact rational model: canonical tableau B^-1[A|b] computed by Gauss-Jordan over BigRational from the standard form (hook 2) and the implementation's basis; conformance tolerance 1e-7 relative; order comparisons on exact values (non-negativity, minimal ratio, monotone objective) carry a slack of 1e-9");
    run.assume("pivots observed through the verif_hooks pivot recorder in Tableau::pivot (all drivers share it)");
    run.assume("optimality of the final state judged with rooc's own 1e-5 tolerance on reduced costs; final value compared with the exact LP optimum at 1e-6");
    let sp: Vec<(&'static str, LmSpec)> = crate::props::c04_c05::specials().into_iter().filter(|s| s.1.all_continuous() && s.1.sense != Sense::Satisfy).collect();
    {
        let sp2 = sp.clone();
        run.family("specials", sp.len() as u64, move |i, l| {
            let (name, spec) = &sp2[i as usize];
            l.count(&format!("special:{name}"));
            check_model(spec, l);
        });
    }
    for fam in families(run.quick()) {
        let f2 = fam.clone();
        let scales = fam.name.starts_with("T10");
        run.family(fam.name, fam.size(), move |i, l| {
            let spec = f2.get(i);
            let before = l.violations.len();
            check_model(&spec, l);
            if scales {
                // one call-site class per kind of failure, whichever driver shows it (see DESIGN.md, findings)
                for v in &mut l.violations[before..] {
                    let kind = v.signature.split_once(':').map(|(_, k)| k.to_string()).unwrap_or(v.signature.clone());
                    v.signature = format!("column-scales-five-orders-apart:{kind}");
                }
            }
        });
    }
    {
        let cases = std::sync::Arc::new(wide_cases());
        let c2 = cases.clone();
        run.family("TW-wide-tableaux", cases.len() as u64, move |i, l| {
            let (n, m, p, q, max) = c2[i as usize];
            l.count("wide-tableaux");
            check_model(&wide_model(n, m, p, q, max), l);
        });
    }
    // continuous linear models as the compiler produces them (auxiliaries of relaxed lowerings,
    // published derived bounds, rows that duplicate bounds): objective models of the C02 family
    {
        let n = crate::props::c02::family_size_pub(1, true);
        run.family("K-compiled-continuous-models", n, |i, l| {
            let case = crate::props::c02::family_pub(i, 1, true);
            if let Ok(Ok(lm)) = crate::core::catch(|| case.model.compile()) {
                if let Some(spec) = LmSpec::from_rooc(&lm) {
                    // dyadic data only: the exact comparison uses zero tolerance
                    if spec.all_continuous() && !crate::props::c01::is_inexact(&case.model) {
                        l.count("compiled-continuous-models");
                        check_model(&spec, l);
                    }
                }
            }
        });
    }
    for c in ["transitions", "start:two-phase", "start:direct-basis", "degenerate_pivots", "ratio_ties", "solve:finished", "solve:unbounded", "traces_validated"] {
        run.require(c);
    }
    let states = run.merged.extra_sets.get("states").map(|s| s.len()).unwrap_or(0) as u64;
    run.extra.insert("states".into(), json!(states));
    run.extra.insert("transitions".into(), json!(run.counter("transitions")));
    run.extra.insert("traces".into(), json!(run.counter("traces")));
    run.extra.insert("traces_validated_against_impl".into(), json!(run.counter("traces_validated")));
    run.finish()
}
