//! Reference semantics of the compiled expression language (rooc's `Exp` trees), exact arithmetic.
//! Written from the language documentation: a number is true iff it is not 0; logic operators yield
//! 0/1; abs/min/max/+ - * /; division by zero is undefined; evaluation is strict (an undefined
//! operand makes the whole expression undefined).
use crate::exact::{Q, q, qf};
use num_traits::{Signed, Zero};
use rooc::model_transformer::Exp;
use rooc::{BinOp, UnOp};
use std::collections::BTreeMap;

pub type Env = BTreeMap<String, Q>;

#[derive(Debug, Clone, PartialEq)]
pub enum Undef {
    DivisionByZero,
    EmptyExtreme,
    UnknownVariable(String),
    NonFinite,
}

fn truthy(v: &Q) -> bool {
    !v.is_zero()
}
fn b(v: bool) -> Q {
    if v { q(1) } else { q(0) }
}

pub fn eval(e: &Exp, env: &Env) -> Result<Q, Undef> {
    Ok(match e {
        Exp::Number(n) => {
            if !n.is_finite() {
                return Err(Undef::NonFinite);
            }
            qf(*n)
        }
        Exp::Variable(v) => env.get(v).cloned().ok_or_else(|| Undef::UnknownVariable(v.clone()))?,
        Exp::Abs(i) => eval(i, env)?.abs(),
        Exp::Min(v) => {
            let mut vals = v.iter().map(|x| eval(x, env)).collect::<Result<Vec<_>, _>>()?;
            let first = vals.pop().ok_or(Undef::EmptyExtreme)?;
            vals.into_iter().fold(first, |a, x| if x < a { x } else { a })
        }
        Exp::Max(v) => {
            let mut vals = v.iter().map(|x| eval(x, env)).collect::<Result<Vec<_>, _>>()?;
            let first = vals.pop().ok_or(Undef::EmptyExtreme)?;
            vals.into_iter().fold(first, |a, x| if x > a { x } else { a })
        }
        Exp::And(v) => {
            let vals = v.iter().map(|x| eval(x, env)).collect::<Result<Vec<_>, _>>()?;
            b(vals.iter().all(truthy))
        }
        Exp::Or(v) => {
            let vals = v.iter().map(|x| eval(x, env)).collect::<Result<Vec<_>, _>>()?;
            b(vals.iter().any(truthy))
        }
        Exp::Not(i) => b(!truthy(&eval(i, env)?)),
        Exp::Xor(l, r) => b(truthy(&eval(l, env)?) != truthy(&eval(r, env)?)),
        Exp::Implies(l, r) => {
            let (l, r) = (eval(l, env)?, eval(r, env)?);
            b(!truthy(&l) || truthy(&r))
        }
        Exp::Iff(l, r) => b(truthy(&eval(l, env)?) == truthy(&eval(r, env)?)),
        Exp::BinOp(op, l, r) => {
            let (l, r) = (eval(l, env)?, eval(r, env)?);
            match op {
                BinOp::Add => l + r,
                BinOp::Sub => l - r,
                BinOp::Mul => l * r,
                BinOp::Div => {
                    if r.is_zero() {
                        return Err(Undef::DivisionByZero);
                    }
                    l / r
                }
                BinOp::And => b(truthy(&l) && truthy(&r)),
                BinOp::Or => b(truthy(&l) || truthy(&r)),
                BinOp::Xor => b(truthy(&l) != truthy(&r)),
                BinOp::Implies => b(!truthy(&l) || truthy(&r)),
                BinOp::Iff => b(truthy(&l) == truthy(&r)),
            }
        }
        Exp::UnOp(op, i) => {
            let v = eval(i, env)?;
            match op {
                UnOp::Neg => -v,
                UnOp::Not => b(!truthy(&v)),
            }
        }
    })
}

/// every division whose denominator is zero or not a constant (the ones the linearizer must diagnose)
pub fn bad_divisions(e: &Exp, out: &mut Vec<String>) {
    match e {
        Exp::Number(_) | Exp::Variable(_) => {}
        Exp::Abs(i) | Exp::Not(i) | Exp::UnOp(_, i) => bad_divisions(i, out),
        Exp::Min(v) | Exp::Max(v) | Exp::And(v) | Exp::Or(v) => v.iter().for_each(|x| bad_divisions(x, out)),
        Exp::Xor(l, r) | Exp::Implies(l, r) | Exp::Iff(l, r) => {
            bad_divisions(l, out);
            bad_divisions(r, out);
        }
        Exp::BinOp(op, l, r) => {
            bad_divisions(l, out);
            bad_divisions(r, out);
            if *op == BinOp::Div {
                match &**r {
                    Exp::Number(n) if *n != 0.0 => {}
                    _ => out.push(format!("{}", e)),
                }
            }
        }
    }
}

pub fn count_divisions(e: &Exp) -> (usize, usize) {
    // (division by a literal zero, division by a non-constant)
    fn go(e: &Exp, z: &mut usize, n: &mut usize) {
        match e {
            Exp::Number(_) | Exp::Variable(_) => {}
            Exp::Abs(i) | Exp::Not(i) | Exp::UnOp(_, i) => go(i, z, n),
            Exp::Min(v) | Exp::Max(v) | Exp::And(v) | Exp::Or(v) => v.iter().for_each(|x| go(x, z, n)),
            Exp::Xor(l, r) | Exp::Implies(l, r) | Exp::Iff(l, r) => {
                go(l, z, n);
                go(r, z, n);
            }
            Exp::BinOp(op, l, r) => {
                go(l, z, n);
                go(r, z, n);
                if *op == BinOp::Div {
                    match &**r {
                        Exp::Number(v) if *v == 0.0 => *z += 1,
                        Exp::Number(_) => {}
                        _ => *n += 1,
                    }
                }
            }
        }
    }
    let (mut z, mut n) = (0, 0);
    go(e, &mut z, &mut n);
    (z, n)
}
