//! Harness-side description of a linear model, from which both rooc's LinearModel and the exact LP are built.
use crate::core::Digits;
use crate::exact::{Lp, Q, Rel, q, qf};
use rooc::{Comparison, LinearModel, OptimizationType, VariableType};
use serde_json::{Value, json};

#[derive(Clone, Debug, PartialEq)]
pub enum Dom {
    NonNeg,
    Free,
    Real(f64, f64),
    NonNegB(f64, f64),
    Bool,
    Int(i32, i32),
}

impl Dom {
    pub fn to_vt(&self) -> VariableType {
        match self {
            Dom::NonNeg => VariableType::non_negative_real(),
            Dom::Free => VariableType::real(),
            Dom::Real(a, b) => VariableType::Real(*a, *b),
            Dom::NonNegB(a, b) => VariableType::NonNegativeReal(*a, *b),
            Dom::Bool => VariableType::Boolean,
            Dom::Int(a, b) => VariableType::IntegerRange(*a, *b),
        }
    }
    pub fn from_vt(vt: &VariableType) -> Dom {
        match vt {
            VariableType::Boolean => Dom::Bool,
            VariableType::IntegerRange(a, b) => Dom::Int(*a, *b),
            VariableType::Real(a, b) => Dom::Real(*a, *b),
            VariableType::NonNegativeReal(a, b) => Dom::NonNegB(*a, *b),
        }
    }
    pub fn bounds(&self) -> (f64, f64) {
        match self {
            Dom::NonNeg => (0.0, f64::INFINITY),
            Dom::Free => (f64::NEG_INFINITY, f64::INFINITY),
            Dom::Real(a, b) => (*a, *b),
            Dom::NonNegB(a, b) => (*a, *b),
            Dom::Bool => (0.0, 1.0),
            Dom::Int(a, b) => (*a as f64, *b as f64),
        }
    }
    pub fn is_int(&self) -> bool {
        matches!(self, Dom::Bool | Dom::Int(_, _))
    }
    pub fn is_continuous(&self) -> bool {
        !self.is_int()
    }
    pub fn show(&self) -> String {
        format!("{}", self.to_vt())
    }
}

#[derive(Clone, Debug)]
pub struct Row {
    pub coef: Vec<f64>,
    pub rel: Rel,
    pub rhs: f64,
    pub name: String,
}

#[derive(Clone, Debug, PartialEq, Eq, Hash, Copy)]
pub enum Sense {
    Min,
    Max,
    Satisfy,
}

#[derive(Clone, Debug)]
pub struct LmSpec {
    pub vars: Vec<(String, Dom)>,
    pub rows: Vec<Row>,
    pub obj: Vec<f64>,
    pub offset: f64,
    pub sense: Sense,
}

pub fn rel_to_cmp(r: Rel) -> Comparison {
    match r {
        Rel::Le => Comparison::LessOrEqual,
        Rel::Ge => Comparison::GreaterOrEqual,
        Rel::Eq => Comparison::Equal,
    }
}
/// suffix of the name of a row read back from a strict comparison (`<`, `>`): the exact oracle works on
/// the closure, the structural comparisons see the difference
pub const STRICT_MARK: &str = "\u{1}strict";
pub fn cmp_to_rel(c: &Comparison) -> Option<Rel> {
    match c {
        Comparison::LessOrEqual => Some(Rel::Le),
        Comparison::GreaterOrEqual => Some(Rel::Ge),
        Comparison::Equal => Some(Rel::Eq),
        _ => None,
    }
}
pub fn rel_str(r: Rel) -> &'static str {
    match r {
        Rel::Le => "<=",
        Rel::Ge => ">=",
        Rel::Eq => "=",
    }
}

impl LmSpec {
    pub fn to_rooc(&self) -> LinearModel {
        let mut m = LinearModel::new();
        for (name, d) in &self.vars {
            m.add_variable(name, d.to_vt());
        }
        for r in &self.rows {
            // strict rows (only met when a compiled model is read back) carry a marker in their name
            match r.name.strip_suffix(STRICT_MARK) {
                Some(name) => {
                    let cmp = match r.rel {
                        Rel::Le => Comparison::Less,
                        Rel::Ge => Comparison::Greater,
                        Rel::Eq => Comparison::Equal,
                    };
                    m.add_named_constraint(r.coef.clone(), cmp, r.rhs, name)
                }
                None => m.add_named_constraint(r.coef.clone(), rel_to_cmp(r.rel), r.rhs, &r.name),
            };
        }
        let ot = match self.sense {
            Sense::Min => OptimizationType::Min,
            Sense::Max => OptimizationType::Max,
            Sense::Satisfy => OptimizationType::Satisfy,
        };
        if self.offset != 0.0 {
            // offset can only be set via new_from_parts
            let (_, _, _, cons, vars, dom) = m.into_parts();
            return LinearModel::new_from_parts(self.obj.clone(), ot, self.offset, cons, vars, dom);
        }
        m.set_objective(self.obj.clone(), ot);
        m
    }

    /// Read a rooc LinearModel back into a spec (used for compiled models).
    pub fn from_rooc(m: &LinearModel) -> Option<LmSpec> {
        let mut vars = vec![];
        for v in m.variables() {
            let d = m.domain().get(v)?;
            vars.push((v.clone(), Dom::from_vt(d.get_type())));
        }
        let mut rows = vec![];
        for c in m.constraints() {
            let (rel, strict) = match c.constraint_type() {
                Comparison::Less => (Rel::Le, true),
                Comparison::Greater => (Rel::Ge, true),
                other => (cmp_to_rel(other)?, false),
            };
            rows.push(Row { coef: c.coefficients().clone(), rel, rhs: c.rhs(), name: if strict { format!("{}{STRICT_MARK}", c.name()) } else { c.name() } });
        }
        let sense = match m.optimization_type() {
            OptimizationType::Min => Sense::Min,
            OptimizationType::Max => Sense::Max,
            OptimizationType::Satisfy => Sense::Satisfy,
        };
        Some(LmSpec { vars, rows, obj: m.objective().clone(), offset: m.objective_offset(), sense })
    }

    pub fn to_exact(&self) -> Lp {
        let n = self.vars.len();
        let mut lp = Lp::new(n);
        lp.maximize = self.sense == Sense::Max;
        for i in 0..n {
            lp.obj[i] = if self.sense == Sense::Satisfy { q(0) } else { qf(self.obj.get(i).copied().unwrap_or(0.0)) };
            let (lo, hi) = self.vars[i].1.bounds();
            lp.lb[i] = if lo.is_finite() { Some(qf(lo)) } else { None };
            lp.ub[i] = if hi.is_finite() { Some(qf(hi)) } else { None };
            // a lower bound of +inf / upper bound of -inf (or NaN) admits no value
            if lo == f64::INFINITY || hi == f64::NEG_INFINITY || lo.is_nan() || hi.is_nan() {
                lp.lb[i] = Some(q(1));
                lp.ub[i] = Some(q(0));
            }
            lp.int[i] = self.vars[i].1.is_int();
        }
        lp.offset = qf(self.offset);
        for r in &self.rows {
            let mut c: Vec<Q> = r.coef.iter().map(|v| qf(*v)).collect();
            c.resize(n, q(0));
            lp.rows.push((c, r.rel, qf(r.rhs)));
        }
        lp
    }

    pub fn all_continuous(&self) -> bool {
        self.vars.iter().all(|v| v.1.is_continuous())
    }

    pub fn to_json(&self) -> Value {
        json!({
            "text": self.show(),
        })
    }

    pub fn show(&self) -> String {
        let mut s = String::new();
        s.push_str(match self.sense {
            Sense::Min => "min ",
            Sense::Max => "max ",
            Sense::Satisfy => "solve ",
        });
        s.push_str(&lin(&self.obj, &self.vars));
        if self.offset != 0.0 {
            s.push_str(&format!(" + ({})", self.offset));
        }
        s.push_str(" s.t. ");
        for r in &self.rows {
            if !r.name.is_empty() {
                s.push_str(&format!("{}: ", r.name));
            }
            s.push_str(&format!("{} {} {}; ", lin(&r.coef, &self.vars), rel_str(r.rel), r.rhs));
        }
        s.push_str("| ");
        for (n, d) in &self.vars {
            s.push_str(&format!("{} as {}; ", n, d.show()));
        }
        s
    }

    pub fn canon_hash(&self) -> u64 {
        crate::core::hash_of(&self.show())
    }
}

fn lin(c: &[f64], vars: &[(String, Dom)]) -> String {
    let mut parts = vec![];
    for (i, v) in c.iter().enumerate() {
        if *v != 0.0 {
            parts.push(format!("{}*{}", v, vars.get(i).map(|v| v.0.as_str()).unwrap_or("?")));
        }
    }
    if parts.is_empty() { "0".to_string() } else { parts.join(" + ") }
}

pub const RELS: [Rel; 3] = [Rel::Le, Rel::Ge, Rel::Eq];

/// Generic ranked family description for LP/MILP models.
#[derive(Clone)]
pub struct LmFamily {
    pub name: &'static str,
    pub n: usize,
    pub m: usize,
    pub doms: Vec<Dom>,
    pub coefs: Vec<f64>,
    pub rhss: Vec<f64>,
    pub rels: Vec<Rel>,
    pub objs: Vec<f64>,
    pub senses: Vec<Sense>,
    pub offsets: Vec<f64>,
    pub named: bool,
}

impl LmFamily {
    pub fn size(&self) -> u64 {
        let mut dims = vec![];
        for _ in 0..self.n {
            dims.push(self.doms.len());
        }
        for _ in 0..self.m {
            for _ in 0..self.n {
                dims.push(self.coefs.len());
            }
            dims.push(self.rels.len());
            dims.push(self.rhss.len());
        }
        for _ in 0..self.n {
            dims.push(self.objs.len());
        }
        dims.push(self.senses.len());
        dims.push(self.offsets.len());
        crate::core::radix_size(&dims)
    }
    pub fn get(&self, index: u64) -> LmSpec {
        let mut d = Digits(index);
        // objective and sense first so that consecutive indexes vary the objective fastest
        let sense = *d.of(&self.senses);
        let offset = *d.of(&self.offsets);
        let mut obj = vec![];
        for _ in 0..self.n {
            obj.push(*d.of(&self.objs));
        }
        let mut vars = vec![];
        let names = ["x", "y", "z", "w"];
        for i in 0..self.n {
            vars.push((names[i].to_string(), d.of(&self.doms).clone()));
        }
        let mut rows = vec![];
        for r in 0..self.m {
            let mut coef = vec![];
            for _ in 0..self.n {
                coef.push(*d.of(&self.coefs));
            }
            let rel = *d.of(&self.rels);
            let rhs = *d.of(&self.rhss);
            rows.push(Row { coef, rel, rhs, name: if self.named { format!("r{}", r + 1) } else { String::new() } });
        }
        LmSpec { vars, rows, obj, offset, sense }
    }
}
