//! Uniform driver for rooc's built-in solver entry points.
use crate::core::catch;
use rooc::{LinearModel, SolutionStatus, SolverError};

#[derive(Clone, Copy, Debug, PartialEq, Eq, Hash)]
pub enum SolverKind {
    Milp,
    Auto,
    MicroReal,
    Clarabel,
    Simplex,
}

pub const ALL_SOLVERS: [SolverKind; 5] = [
    SolverKind::Milp,
    SolverKind::Auto,
    SolverKind::MicroReal,
    SolverKind::Clarabel,
    SolverKind::Simplex,
];

impl SolverKind {
    pub fn name(&self) -> &'static str {
        match self {
            SolverKind::Milp => "milp",
            SolverKind::Auto => "auto",
            SolverKind::MicroReal => "microlp_real",
            SolverKind::Clarabel => "clarabel",
            SolverKind::Simplex => "simplex",
        }
    }
    /// simplex-based / microlp-based solvers must always reach a verdict on small models
    pub fn must_answer(&self) -> bool {
        !matches!(self, SolverKind::Clarabel)
    }
}

#[derive(Clone, Debug)]
pub struct Sol {
    pub assignment: Vec<(String, f64)>,
    /// raw rendering of typed values (MILP: bool/int/real)
    pub typed: Vec<String>,
    pub value: f64,
    pub constraints: Vec<(String, f64)>,
    pub shadow: Vec<(String, f64)>,
    pub optimal_status: bool,
}

#[derive(Clone, Debug, PartialEq, Eq, Hash)]
pub enum Outcome {
    Ok,
    Infeasible,
    Unbounded,
    /// documented rejection (domain / objective type not supported): not judged
    Rejected(String),
    Other(String),
    Panic(String),
}

pub fn run_solver(kind: SolverKind, lm: &LinearModel) -> (Outcome, Option<Sol>) {
    let r = catch(|| match kind {
        SolverKind::Milp => rooc::solve_milp_lp_problem(lm).map(conv_milp),
        SolverKind::Auto => rooc::auto_solver(lm).map(conv_milp),
        SolverKind::MicroReal => rooc::solve_real_lp_problem_micro_lp(lm).map(conv_real),
        SolverKind::Clarabel => rooc::solve_real_lp_problem_clarabel(lm).map(conv_real),
        SolverKind::Simplex => rooc::solve_real_lp_problem_slow_simplex(lm, 1000).map(conv_real),
    });
    match r {
        Err(p) => (Outcome::Panic(p), None),
        Ok(Ok(s)) => (Outcome::Ok, Some(s)),
        Ok(Err(e)) => (classify_err(&e), None),
    }
}

pub fn classify_err(e: &SolverError) -> Outcome {
    match e {
        SolverError::Infeasible => Outcome::Infeasible,
        SolverError::Unbounded => Outcome::Unbounded,
        SolverError::InvalidDomain { .. } => Outcome::Rejected("InvalidDomain".into()),
        SolverError::UnimplementedOptimizationType { .. } => Outcome::Rejected("UnimplementedOptimizationType".into()),
        SolverError::UnavailableComparison { .. } => Outcome::Rejected("UnavailableComparison".into()),
        SolverError::TooLarge { .. } => Outcome::Other("TooLarge".into()),
        SolverError::DidNotSolve => Outcome::Other("DidNotSolve".into()),
        SolverError::LimitReached => Outcome::Other("LimitReached".into()),
        SolverError::Other(s) => Outcome::Other(format!("Other({s})")),
    }
}

pub fn conv_milp(s: rooc::LpSolution<rooc::MILPValue>) -> Sol {
    Sol {
        assignment: s.assignment().iter().map(|a| (a.name.clone(), f64::from(a.value))).collect(),
        typed: s.assignment().iter().map(|a| format!("{:?}", a.value)).collect(),
        value: s.value(),
        constraints: s.constraints().iter().map(|(k, v)| (k.clone(), *v)).collect(),
        shadow: s.shadow_prices().iter().map(|(k, v)| (k.clone(), *v)).collect(),
        optimal_status: s.status() == SolutionStatus::Optimal,
    }
}
pub fn conv_real(s: rooc::LpSolution<f64>) -> Sol {
    Sol {
        assignment: s.assignment().iter().map(|a| (a.name.clone(), a.value)).collect(),
        typed: s.assignment().iter().map(|a| format!("{:?}", a.value)).collect(),
        value: s.value(),
        constraints: s.constraints().iter().map(|(k, v)| (k.clone(), *v)).collect(),
        shadow: s.shadow_prices().iter().map(|(k, v)| (k.clone(), *v)).collect(),
        optimal_status: s.status() == SolutionStatus::Optimal,
    }
}
