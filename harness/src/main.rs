mod core;
mod exact;
mod linsem;
mod lm;
mod props;
mod refsem;
mod solve;
mod textref;

use crate::core::Run;

fn main() {
    let args: Vec<String> = std::env::args().collect();
    if args.len() < 2 {
        eprintln!("usage: rooc-verif <ID> [--tier quick|thorough] [--replay <file>]");
        std::process::exit(2);
    }
    let id = args[1].clone();
    let mut tier = std::env::var("VERIF_TIER").unwrap_or_else(|_| "quick".to_string());
    let mut replay: Option<String> = None;
    let mut worker: Option<(String, u64, u64)> = None;
    let mut describe = false;
    let mut i = 2;
    while i < args.len() {
        match args[i].as_str() {
            "--tier" => {
                tier = args[i + 1].clone();
                i += 2;
            }
            "--replay" => {
                replay = Some(args[i + 1].clone());
                i += 2;
            }
            "--describe" => {
                describe = true;
                i += 1;
            }
            "--worker" => {
                worker = Some((args[i + 1].clone(), args[i + 2].parse().unwrap(), args[i + 3].parse().unwrap()));
                i += 4;
            }
            other => {
                eprintln!("unknown argument {other}");
                std::process::exit(2);
            }
        }
    }
    if tier != "quick" && tier != "thorough" {
        eprintln!("tier must be quick or thorough");
        std::process::exit(2);
    }
    let level = match id.as_str() {
        "C14" => "model_checking",
        "C15" | "C07" => "fault_enumeration",
        _ => "exploration",
    };
    let mut run = Run::new(&id, &tier, level);
    run.worker = worker;
    run.describe_mode = describe;
    run.base_args = vec![id.clone(), "--tier".to_string(), tier.clone()];
    if let Some(path) = replay {
        let text = std::fs::read_to_string(&path).expect("cannot read replay file");
        let v: serde_json::Value = serde_json::from_str(&text).expect("replay file must be JSON");
        let fam = v["family"].as_str().expect("replay.family").to_string();
        let idx = v["index"].as_u64().expect("replay.index");
        if let Some(t) = v["tier"].as_str() {
            run.tier = t.to_string();
        }
        run.replay = Some((fam, idx));
    }
    match id.as_str() {
        "C01" => props::c01::run(run),
        "C02" => props::c02::run(run),
        "C03" => props::c03::run(run),
        "C04" | "C05" => props::c04_c05::run(&id, run),
        "C06" => props::c06::run(run),
        "C07" => props::c07::run(run),
        "C08" => props::c08::run(run),
        "C09" => props::c09::run(run),
        "C10" => props::c10::run(run),
        "C11" => props::c11::run(run),
        "C12" => props::c12::run(run),
        "C13" => props::c13::run(run),
        "C14" => props::c14::run(run),
        #[cfg(feature = "vclock")]
        "C15" => props::c15::run(run),
        #[cfg(not(feature = "vclock"))]
        "C15" => {
            eprintln!("C15 needs the virtual-clock workspace: use ./check C15 (builds /verif/harness_vclock)");
            std::process::exit(2);
        }
        "C16" => props::c16::run(run),
        "C17" => props::c17::run(run),
        "C18" => props::c18::run(run),
        "C19" => props::c19::run(run),
        "C20" => props::c20::run(run),
        _ => {
            eprintln!("no engine for property {id}");
            std::process::exit(2);
        }
    }
}
