//! Explorer core: sharded exhaustive enumeration, evidence, known findings, replay files.
use serde::{Deserialize, Serialize};
use serde_json::{Value, json};
use std::collections::{BTreeMap, HashSet, VecDeque};
use std::io::Write;
use std::sync::{Arc, Mutex};
use std::hash::{Hash, Hasher};
use std::sync::atomic::{AtomicBool, AtomicU64, Ordering};
use std::time::Instant;

pub const VERIF_DIR: &str = "/verif";
/// where evidence, replays and the known-findings file live (VERIF_DIR_OVERRIDE is for development copies only)
pub fn verif_dir() -> String {
    std::env::var("VERIF_DIR_OVERRIDE").unwrap_or_else(|_| VERIF_DIR.to_string())
}

#[derive(Clone, Debug, Serialize, Deserialize)]
pub struct Violation {
    /// coarse call-site / shape signature, compared with known_findings.json
    pub signature: String,
    pub family: String,
    pub index: u64,
    pub what: String,
    pub case: Value,
}

/// Per-thread accumulator; merged in rank order at the end of a family.
#[derive(Default, Serialize, Deserialize)]
pub struct Local {
    pub counters: BTreeMap<String, u64>,
    pub violations: Vec<Violation>,
    pub distinct: HashSet<u64>,
    pub samples: Vec<(u64, Value)>,
    pub evaluations: u64,
    pub extra_sets: BTreeMap<String, HashSet<u64>>,
    /// (family, index) of the case currently executed (set by the explorer)
    #[serde(skip)]
    pub cur_family: String,
    #[serde(skip)]
    pub cur_index: u64,
    #[serde(skip)]
    pub want_sample: bool,
    #[serde(skip)]
    pub replay_mode: bool,
    /// describe-only mode: the case closure reports what it would run and returns
    #[serde(skip)]
    pub describe_only: bool,
    #[serde(skip)]
    pub description: Option<(String, Value)>,
}

static PHASE: Mutex<String> = Mutex::new(String::new());
/// Name the step (and input class) about to run, so that a hang or abort can be attributed.
pub fn set_phase(s: &str) {
    if let Ok(mut p) = PHASE.lock() {
        p.clear();
        p.push_str(s);
    }
}
fn get_phase() -> String {
    PHASE.lock().map(|p| p.clone()).unwrap_or_default()
}

impl Local {
    pub fn count(&mut self, key: &str) {
        *self.counters.entry(key.to_string()).or_insert(0) += 1;
    }
    pub fn add(&mut self, key: &str, n: u64) {
        *self.counters.entry(key.to_string()).or_insert(0) += n;
    }
    pub fn max(&mut self, key: &str, n: u64) {
        let e = self.counters.entry(format!("max:{key}")).or_insert(0);
        if n > *e {
            *e = n;
        }
    }
    /// record a distinct non-trivial case by canonical hash
    pub fn nontrivial<T: Hash>(&mut self, canon: &T) {
        self.distinct.insert(hash_of(canon));
    }
    pub fn set_insert<T: Hash>(&mut self, set: &str, v: &T) {
        self.extra_sets
            .entry(set.to_string())
            .or_default()
            .insert(hash_of(v));
    }
    pub fn violation(&mut self, signature: impl Into<String>, what: impl Into<String>, case: Value) {
        if self.violations.len() < 200 || self.replay_mode {
            self.violations.push(Violation {
                signature: signature.into(),
                family: self.cur_family.clone(),
                index: self.cur_index,
                what: what.into(),
                case,
            });
        } else {
            self.count("violations_dropped_over_cap");
        }
    }
    pub fn merge_from(&mut self, l: Local) {
        for (k, v) in l.counters {
            if k.starts_with("max:") {
                let e = self.counters.entry(k).or_insert(0);
                if v > *e {
                    *e = v;
                }
            } else {
                *self.counters.entry(k).or_insert(0) += v;
            }
        }
        self.violations.extend(l.violations);
        self.distinct.extend(l.distinct);
        self.samples.extend(l.samples);
        self.evaluations += l.evaluations;
        for (k, s) in l.extra_sets {
            self.extra_sets.entry(k).or_default().extend(s);
        }
    }
    /// Announce the case before running it: `class` is the structural class used in abort/hang
    /// signatures. Returns true in describe-only mode (the caller must then return at once).
    pub fn describe(&mut self, class: &str, v: impl FnOnce() -> Value) -> bool {
        set_phase(class);
        if self.describe_only {
            self.description = Some((class.to_string(), v()));
            return true;
        }
        false
    }
    pub fn sample(&mut self, v: impl FnOnce() -> Value) {
        if self.want_sample {
            self.samples.push((self.cur_index, v()));
            self.want_sample = false;
        }
    }
}

pub fn hash_of<T: Hash>(v: &T) -> u64 {
    let mut h = Fnv(0xcbf29ce484222325);
    v.hash(&mut h);
    h.finish()
}
struct Fnv(u64);
impl Hasher for Fnv {
    fn finish(&self) -> u64 {
        self.0
    }
    fn write(&mut self, bytes: &[u8]) {
        for b in bytes {
            self.0 ^= *b as u64;
            self.0 = self.0.wrapping_mul(0x100000001b3);
        }
    }
}

/// mixed radix decoder: index -> digits
pub struct Digits(pub u64);
impl Digits {
    pub fn pick(&mut self, n: usize) -> usize {
        let n = n as u64;
        let d = self.0 % n;
        self.0 /= n;
        d as usize
    }
    pub fn of<'a, T>(&mut self, menu: &'a [T]) -> &'a T {
        &menu[self.pick(menu.len())]
    }
    pub fn exhausted(&self) -> bool {
        self.0 == 0
    }
}
pub fn radix_size(dims: &[usize]) -> u64 {
    dims.iter().fold(1u64, |a, d| a.checked_mul(*d as u64).expect("space too large"))
}

pub struct FamilyReport {
    pub name: String,
    pub size: u64,
    pub completed: bool,
    pub executed: u64,
}

pub struct Run {
    pub prop: String,
    pub tier: String,
    pub seed: u64,
    pub threads: usize,
    pub level: String,
    pub started: Instant,
    pub wall_cap_s: f64,
    pub merged: Local,
    pub families: Vec<FamilyReport>,
    pub assumptions: Vec<String>,
    pub rule: String,
    pub replay: Option<(String, u64)>,
    pub machinery_errors: Vec<String>,
    pub extra: BTreeMap<String, Value>,
    /// worker mode: (family, start, end) — run only that range and print the result
    pub worker: Option<(String, u64, u64)>,
    /// run families in worker subprocesses (hang / abort isolation)
    pub isolate: bool,
    pub case_timeout_s: f64,
    pub worker_stack_mb: usize,
    pub base_args: Vec<String>,
    /// worker prints the description of its (single) case instead of running it
    pub describe_mode: bool,
    /// address-space limit for worker subprocesses (KiB), applied with `ulimit -v`
    pub worker_mem_limit_kb: Option<u64>,
}

impl Run {
    pub fn new(prop: &str, tier: &str, level: &str) -> Run {
        let seed = std::env::var("VERIF_SEED")
            .ok()
            .and_then(|s| s.parse::<u64>().ok())
            .unwrap_or(0);
        let threads = std::env::var("VERIF_THREADS")
            .ok()
            .and_then(|s| s.parse::<usize>().ok())
            .unwrap_or_else(|| std::thread::available_parallelism().map(|n| n.get()).unwrap_or(4))
            .max(1);
        let wall_cap_s = std::env::var("VERIF_WALL_CAP_S")
            .ok()
            .and_then(|s| s.parse::<f64>().ok())
            .unwrap_or(if tier == "quick" { 240.0 } else { 1500.0 });
        Run {
            prop: prop.to_string(),
            tier: tier.to_string(),
            seed,
            threads,
            level: level.to_string(),
            started: Instant::now(),
            wall_cap_s,
            merged: Local::default(),
            families: vec![],
            assumptions: vec![],
            rule: String::new(),
            replay: None,
            machinery_errors: vec![],
            extra: BTreeMap::new(),
            worker: None,
            isolate: false,
            case_timeout_s: 20.0,
            worker_stack_mb: 64,
            base_args: vec![],
            describe_mode: false,
            worker_mem_limit_kb: None,
        }
    }
    pub fn quick(&self) -> bool {
        self.tier == "quick"
    }
    pub fn assume(&mut self, s: &str) {
        self.assumptions.push(s.to_string());
    }

    /// Enumerate family `name` of `size` cases completely (or only the replayed index).
    /// `f` must be deterministic in (index).
    pub fn family<F>(&mut self, name: &str, size: u64, f: F)
    where
        F: Fn(u64, &mut Local) + Sync,
    {
        if let Some((fam, idx)) = &self.replay {
            if fam != name {
                return;
            }
            if self.isolate && self.worker.is_none() {
                let idx = *idx;
                self.family_isolated(name, size, idx, idx + 1);
                return;
            }
            let mut local = Local::default();
            local.cur_family = name.to_string();
            local.cur_index = *idx;
            local.replay_mode = true;
            local.evaluations = 1;
            f(*idx, &mut local);
            self.merge(local);
            self.families.push(FamilyReport {
                name: name.to_string(),
                size,
                completed: false,
                executed: 1,
            });
            return;
        }
        if let Some((fam, start, end)) = self.worker.clone() {
            if fam != name {
                return;
            }
            self.run_worker_range(name, size, start, end, &f);
        }
        if self.isolate {
            self.family_isolated(name, size, 0, size);
            return;
        }
        let next = AtomicU64::new(0);
        let capped = AtomicBool::new(false);
        let block: u64 = (size / (self.threads as u64 * 64)).clamp(1, 4096);
        // sample points: first, middle, last
        let sample_at: [u64; 3] = [0, size / 2, size.saturating_sub(1)];
        let started = self.started;
        let cap = self.wall_cap_s;
        let trace = std::env::var("VERIF_TRACE").is_ok();
        let locals: Vec<Local> = std::thread::scope(|scope| {
            let mut handles = vec![];
            for _ in 0..self.threads {
                let f = &f;
                let next = &next;
                let capped = &capped;
                let name = name.to_string();
                handles.push(
                    std::thread::Builder::new()
                        .stack_size(256 << 20)
                        .spawn_scoped(scope, move || {
                            let mut local = Local::default();
                            local.cur_family = name;
                            loop {
                                if capped.load(Ordering::Relaxed) {
                                    break;
                                }
                                let start = next.fetch_add(block, Ordering::Relaxed);
                                if start >= size {
                                    break;
                                }
                                if started.elapsed().as_secs_f64() > cap {
                                    capped.store(true, Ordering::Relaxed);
                                    // give the block back is not possible; mark incomplete
                                    break;
                                }
                                let end = (start + block).min(size);
                                for i in start..end {
                                    local.cur_index = i;
                                    local.want_sample = sample_at.contains(&i);
                                    local.evaluations += 1;
                                    if trace {
                                        eprintln!("TRACE {} {}", local.cur_family, i);
                                    }
                                    f(i, &mut local);
                                }
                            }
                            local
                        })
                        .unwrap(),
                );
            }
            handles.into_iter().map(|h| h.join().expect("worker panicked")).collect()
        });
        let mut executed = 0;
        for l in locals {
            executed += l.evaluations;
            self.merge(l);
        }
        let completed = !capped.load(Ordering::Relaxed) && executed == size;
        if !completed {
            self.merged.count("caps_hit");
        }
        self.families.push(FamilyReport {
            name: name.to_string(),
            size,
            completed,
            executed,
        });
        eprintln!(
            "[{}] family {} size={} executed={} completed={} t={:.1}s",
            self.prop,
            name,
            size,
            executed,
            completed,
            self.started.elapsed().as_secs_f64()
        );
    }

    fn merge(&mut self, l: Local) {
        self.merged.merge_from(l);
    }

    /// Worker subprocess: run [start,end) of one family single-threaded under a watchdog,
    /// print the accumulated result and exit. Results are committed after each case, so a
    /// hang loses nothing but the hanging case.
    fn run_worker_range<F>(&mut self, name: &str, size: u64, start: u64, end: u64, f: &F) -> !
    where
        F: Fn(u64, &mut Local) + Sync,
    {
        if self.describe_mode {
            let mut local = Local::default();
            local.cur_family = name.to_string();
            local.cur_index = start;
            local.describe_only = true;
            f(start, &mut local);
            let (class, v) = local.description.unwrap_or(("".into(), Value::Null));
            println!("DESC {}", serde_json::to_string(&json!({"class": class, "case": v})).unwrap());
            std::process::exit(0);
        }
        let shared: Arc<Mutex<Local>> = Arc::new(Mutex::new(Local::default()));
        let cur_idx = Arc::new(AtomicU64::new(u64::MAX));
        let cur_start_ms = Arc::new(AtomicU64::new(0));
        let t0 = Instant::now();
        let timeout_ms = (self.case_timeout_s * 1000.0) as u64;
        {
            let shared = shared.clone();
            let cur_idx = cur_idx.clone();
            let cur_start_ms = cur_start_ms.clone();
            std::thread::spawn(move || {
                loop {
                    std::thread::sleep(std::time::Duration::from_millis(25));
                    let idx = cur_idx.load(Ordering::SeqCst);
                    let st = cur_start_ms.load(Ordering::SeqCst);
                    if idx == u64::MAX {
                        continue;
                    }
                    let now = t0.elapsed().as_millis() as u64;
                    if now.saturating_sub(st) > timeout_ms {
                        // still the same case?
                        if cur_idx.load(Ordering::SeqCst) != idx {
                            continue;
                        }
                        let guard = shared.lock().unwrap();
                        if cur_idx.load(Ordering::SeqCst) != idx {
                            continue;
                        }
                        let out = std::io::stdout();
                        let mut o = out.lock();
                        let _ = writeln!(o, "HANG {} {}", idx, get_phase().replace('\n', " "));
                        let _ = writeln!(o, "RESULT {}", serde_json::to_string(&*guard).unwrap());
                        let _ = o.flush();
                        std::process::exit(3);
                    }
                }
            });
        }
        let sample_at: [u64; 3] = [0, size / 2, size.saturating_sub(1)];
        let name_s = name.to_string();
        let trace = trace();
        let shared2 = shared.clone();
        let stack = self.worker_stack_mb << 20;
        std::thread::scope(|scope| {
            std::thread::Builder::new()
                .stack_size(stack)
                .spawn_scoped(scope, move || {
                    for i in start..end {
                        let mut local = Local::default();
                        local.cur_family = name_s.clone();
                        local.cur_index = i;
                        local.want_sample = sample_at.contains(&i);
                        local.evaluations = 1;
                        if trace {
                            eprintln!("TRACE {} {}", name_s, i);
                        }
                        set_phase("");
                        cur_start_ms.store(t0.elapsed().as_millis() as u64, Ordering::SeqCst);
                        cur_idx.store(i, Ordering::SeqCst);
                        f(i, &mut local);
                        let mut g = shared2.lock().unwrap();
                        cur_idx.store(u64::MAX, Ordering::SeqCst);
                        g.merge_from(local);
                    }
                })
                .unwrap()
                .join()
                .ok();
        });
        let guard = shared.lock().unwrap();
        let out = std::io::stdout();
        let mut o = out.lock();
        let _ = writeln!(o, "RESULT {}", serde_json::to_string(&*guard).unwrap());
        let _ = o.flush();
        std::process::exit(0);
    }

    /// Coordinator: the family is cut into blocks, each run by a worker subprocess of this
    /// same binary. A hanging case is reported by the worker's watchdog; an aborting block
    /// is bisected down to the aborting case.
    fn family_isolated(&mut self, name: &str, size: u64, from: u64, to: u64) {
        let threads = self.threads;
        let block = ((to - from) / (threads as u64 * 6)).clamp(1, 100_000);
        let mut q = VecDeque::new();
        let mut s0 = from;
        while s0 < to {
            let e = (s0 + block).min(to);
            q.push_back((s0, e));
            s0 = e;
        }
        let queue = Mutex::new((q, 0usize)); // (blocks, inflight)
        let capped = AtomicBool::new(false);
        let started = self.started;
        let cap = self.wall_cap_s;
        let exe = std::env::current_exe().expect("current_exe");
        let base_args = self.base_args.clone();
        let mem_limit = self.worker_mem_limit_kb;
        let locals: Vec<Local> = std::thread::scope(|scope| {
            let mut hs = vec![];
            for _ in 0..threads {
                let queue = &queue;
                let capped = &capped;
                let exe = exe.clone();
                let base_args = base_args.clone();
                hs.push(scope.spawn(move || {
                    let mut acc = Local::default();
                    loop {
                        let blk = {
                            let mut g = queue.lock().unwrap();
                            if capped.load(Ordering::Relaxed) {
                                break;
                            }
                            match g.0.pop_front() {
                                Some(b) => {
                                    g.1 += 1;
                                    Some(b)
                                }
                                None => {
                                    if g.1 == 0 {
                                        break;
                                    }
                                    None
                                }
                            }
                        };
                        let Some((bs, be)) = blk else {
                            std::thread::sleep(std::time::Duration::from_millis(5));
                            continue;
                        };
                        if started.elapsed().as_secs_f64() > cap {
                            capped.store(true, Ordering::Relaxed);
                            queue.lock().unwrap().1 -= 1;
                            break;
                        }
                        let mut cmd = worker_command(&exe, &base_args, name, bs, be, mem_limit, false);
                        cmd.stdin(std::process::Stdio::null()).stdout(std::process::Stdio::piped());
                        if !trace() {
                            cmd.stderr(std::process::Stdio::null());
                        }
                        let output = cmd.output().expect("spawn worker");
                        let text = String::from_utf8_lossy(&output.stdout);
                        let mut hang: Option<(u64, String)> = None;
                        let mut result: Option<Local> = None;
                        for line in text.lines() {
                            if let Some(rest) = line.strip_prefix("HANG ") {
                                let mut it = rest.splitn(2, ' ');
                                let idx: u64 = it.next().unwrap().parse().unwrap();
                                hang = Some((idx, it.next().unwrap_or("").to_string()));
                            } else if let Some(rest) = line.strip_prefix("RESULT ") {
                                result = serde_json::from_str(rest).ok();
                            }
                        }
                        let mut requeue: Vec<(u64, u64)> = vec![];
                        match (result, hang) {
                            (Some(r), None) => acc.merge_from(r),
                            (Some(r), Some((idx, phase))) => {
                                acc.merge_from(r);
                                acc.evaluations += 1;
                                acc.count("hangs");
                                acc.violations.push(Violation {
                                    signature: format!("hang:{phase}"),
                                    family: name.to_string(),
                                    index: idx,
                                    what: format!("case did not terminate within the per-case time limit (step: {phase})"),
                                    case: json!({"family": name, "index": idx, "step": phase}),
                                });
                                if idx + 1 < be {
                                    requeue.push((idx + 1, be));
                                }
                            }
                            (None, _) => {
                                if be - bs == 1 {
                                    acc.evaluations += 1;
                                    acc.count("aborts");
                                    let st = format!("{:?}", output.status);
                                    // ask a fresh worker what this case is (it does not run it)
                                    let mut dc = worker_command(&exe, &base_args, name, bs, be, mem_limit, true);
                                    dc.stdin(std::process::Stdio::null()).stdout(std::process::Stdio::piped()).stderr(std::process::Stdio::null());
                                    let mut class = String::new();
                                    let mut desc = Value::Null;
                                    if let Ok(o) = dc.output() {
                                        for line in String::from_utf8_lossy(&o.stdout).lines() {
                                            if let Some(rest) = line.strip_prefix("DESC ") {
                                                if let Ok(v) = serde_json::from_str::<Value>(rest) {
                                                    class = v["class"].as_str().unwrap_or("").to_string();
                                                    desc = v["case"].clone();
                                                }
                                            }
                                        }
                                    }
                                    acc.violations.push(Violation {
                                        signature: format!("abort:{class}"),
                                        family: name.to_string(),
                                        index: bs,
                                        what: format!("the process died on this case ({st}): stack overflow, allocation failure or abort"),
                                        case: json!({"family": name, "index": bs, "status": st, "class": class, "case": desc}),
                                    });
                                } else {
                                    let mid = bs + (be - bs) / 2;
                                    requeue.push((bs, mid));
                                    requeue.push((mid, be));
                                }
                            }
                        }
                        let mut g = queue.lock().unwrap();
                        for b in requeue {
                            g.0.push_front(b);
                        }
                        g.1 -= 1;
                    }
                    acc
                }));
            }
            hs.into_iter().map(|h| h.join().expect("coordinator slot panicked")).collect()
        });
        let mut executed = 0;
        for l in locals {
            executed += l.evaluations;
            self.merge(l);
        }
        let completed = !capped.load(Ordering::Relaxed) && executed == size && from == 0 && to == size;
        if !completed && self.replay.is_none() {
            self.merged.count("caps_hit");
        }
        self.families.push(FamilyReport { name: name.to_string(), size, completed, executed });
        eprintln!(
            "[{}] family {} (isolated) size={} executed={} completed={} t={:.1}s",
            self.prop,
            name,
            size,
            executed,
            completed,
            self.started.elapsed().as_secs_f64()
        );
    }

    pub fn counter(&self, k: &str) -> u64 {
        self.merged.counters.get(k).copied().unwrap_or(0)
    }

    /// vacuity guard: a class the alphabet is designed to reach must have been reached
    pub fn require(&mut self, counter: &str) {
        if self.replay.is_some() {
            return;
        }
        if self.counter(counter) == 0 {
            self.machinery_errors
                .push(format!("vacuity guard: outcome class '{counter}' was never reached"));
        }
    }

    /// Finish: write evidence, print findings, exit.
    pub fn finish(mut self) -> ! {
        if let Some((fam, _, _)) = &self.worker {
            eprintln!("worker: family {fam} not found");
            std::process::exit(4);
        }
        let wall = self.started.elapsed().as_secs_f64();
        let known = load_known_findings();
        self.merged.violations.sort_by(|a, b| (a.family.clone(), a.index).cmp(&(b.family.clone(), b.index)));
        let mut known_hits: BTreeMap<String, (String, u64)> = BTreeMap::new();
        let mut unknown: Vec<&Violation> = vec![];
        for v in &self.merged.violations {
            if let Some(k) = known.iter().find(|k| {
                k.property == self.prop && k.status == "known" && k.signature == v.signature
            }) {
                let e = known_hits
                    .entry(k.signature.clone())
                    .or_insert((k.what.clone(), 0));
                e.1 += 1;
            } else {
                unknown.push(v);
            }
        }
        let exhaustive = self.families.iter().all(|f| f.completed) && self.replay.is_none();
        let distinct_nontrivial = self.merged.distinct.len() as u64;
        let mut samples: Vec<Value> = vec![];
        self.merged.samples.sort_by_key(|s| s.0);
        for (_, s) in self.merged.samples.iter().take(24) {
            samples.push(s.clone());
        }
        if samples.is_empty() {
            samples.push(json!("no sample recorded"));
        }
        let mut coverage = serde_json::Map::new();
        coverage.insert("evaluations".into(), json!(self.merged.evaluations));
        coverage.insert("distinct_nontrivial".into(), json!(distinct_nontrivial));
        coverage.insert("rule".into(), json!(self.rule));
        coverage.insert("samples".into(), json!(samples));
        coverage.insert("exhaustive".into(), json!(exhaustive));
        coverage.insert(
            "families".into(),
            json!(
                self.families
                    .iter()
                    .map(|f| json!({"name": f.name, "size": f.size, "executed": f.executed, "completed": f.completed}))
                    .collect::<Vec<_>>()
            ),
        );
        let mut outcomes = serde_json::Map::new();
        for (k, v) in &self.merged.counters {
            outcomes.insert(k.clone(), json!(v));
        }
        for (k, s) in &self.merged.extra_sets {
            outcomes.insert(format!("distinct:{k}"), json!(s.len()));
        }
        coverage.insert("outcomes".into(), Value::Object(outcomes));
        coverage.insert("threads".into(), json!(self.threads));
        coverage.insert(
            "known_findings_hit".into(),
            json!(
                known_hits
                    .iter()
                    .map(|(s, (w, n))| json!({"signature": s, "what": w, "cases": n}))
                    .collect::<Vec<_>>()
            ),
        );
        for (k, v) in &self.extra {
            coverage.insert(k.clone(), v.clone());
        }
        let evidence = json!({
            "property_id": self.prop,
            "tier": self.tier,
            "seed": self.seed,
            "level": self.level,
            "coverage": Value::Object(coverage),
            "assumptions": self.assumptions,
            "wall_s": wall,
            "violations": unknown.len(),
        });
        if self.replay.is_none() {
            let dir = format!("{}/evidence", verif_dir());
            let _ = std::fs::create_dir_all(&dir);
            let path = format!("{dir}/{}.json", self.prop);
            let tmp = format!("{path}.tmp");
            std::fs::write(&tmp, serde_json::to_string_pretty(&evidence).unwrap()).expect("write evidence");
            std::fs::rename(&tmp, &path).expect("rename evidence");
        }
        println!(
            "[{}] tier={} evaluations={} distinct_nontrivial={} exhaustive={} wall={:.1}s",
            self.prop, self.tier, self.merged.evaluations, distinct_nontrivial, exhaustive, wall
        );
        for (k, v) in &self.merged.counters {
            println!("  {k} = {v}");
        }
        for (sig, (what, n)) in &known_hits {
            println!("KNOWN-FINDING: property={} {} [signature={} cases={}]", self.prop, what, sig, n);
        }
        if !self.machinery_errors.is_empty() {
            for e in &self.machinery_errors {
                eprintln!("MACHINERY-ERROR: {e}");
            }
            std::process::exit(2);
        }
        if !unknown.is_empty() {
            // group by signature, print first of each
            let mut per_sig: BTreeMap<String, u64> = BTreeMap::new();
            for v in &unknown {
                *per_sig.entry(v.signature.clone()).or_insert(0) += 1;
            }
            for (k, (sig, n)) in per_sig.iter().enumerate() {
                if k < 60 {
                    println!("  unlisted-violation-count signature={sig} cases={n}");
                }
            }
            if per_sig.len() > 60 {
                println!("  ... {} more signatures", per_sig.len() - 60);
            }
            if std::env::var("VERIF_LIST_ALL").is_ok() {
                for v in &unknown {
                    println!("  ALL {} | {} | {} | {}", v.signature, v.family, v.index, v.case.get("model").map(|m| m.to_string()).unwrap_or_default());
                }
            }
            let mut seen = HashSet::new();
            let dir = format!("{}/replays/{}", verif_dir(), self.prop);
            let _ = std::fs::create_dir_all(&dir);
            for v in &unknown {
                if !seen.insert(v.signature.clone()) {
                    continue;
                }
                if seen.len() > 25 {
                    continue;
                }
                let path = format!("{dir}/{:016x}.json", hash_of(&(&v.signature, &v.family, v.index)));
                let body = json!({
                    "property": self.prop, "family": v.family, "index": v.index, "tier": self.tier,
                    "signature": v.signature, "what": v.what, "case": v.case,
                });
                let _ = std::fs::write(&path, serde_json::to_string_pretty(&body).unwrap());
                println!("  violation signature={} family={} index={}: {}", v.signature, v.family, v.index, v.what);
                println!("VIOLATION property={} replay={}", self.prop, path);
            }
            println!("  ({} violating cases in {} signatures)", unknown.len(), seen.len());
            std::process::exit(1);
        }
        std::process::exit(0);
    }
}

fn worker_command(exe: &std::path::Path, base_args: &[String], name: &str, bs: u64, be: u64, mem_limit_kb: Option<u64>, describe: bool) -> std::process::Command {
    let mut args: Vec<String> = base_args.to_vec();
    args.push("--worker".into());
    args.push(name.to_string());
    args.push(bs.to_string());
    args.push(be.to_string());
    if describe {
        args.push("--describe".into());
    }
    match mem_limit_kb {
        None => {
            let mut c = std::process::Command::new(exe);
            c.args(&args);
            c
        }
        Some(kb) => {
            // sh -c 'ulimit -v KB; exec "$0" "$@"' exe args...
            let mut c = std::process::Command::new("sh");
            c.arg("-c").arg(format!("ulimit -v {kb}; exec \"$0\" \"$@\"")).arg(exe).args(&args);
            c
        }
    }
}

pub struct KnownFinding {
    pub property: String,
    pub signature: String,
    pub what: String,
    pub status: String,
}

pub fn load_known_findings() -> Vec<KnownFinding> {
    let path = format!("{}/known_findings.json", verif_dir());
    let Ok(text) = std::fs::read_to_string(&path) else {
        return vec![];
    };
    let v: Value = serde_json::from_str(&text).expect("known_findings.json must parse");
    let mut out = vec![];
    for e in v["findings"].as_array().cloned().unwrap_or_default() {
        out.push(KnownFinding {
            property: e["property"].as_str().unwrap_or("").to_string(),
            signature: e["signature"].as_str().unwrap_or("").to_string(),
            what: e["what"].as_str().unwrap_or("").to_string(),
            status: e["status"].as_str().unwrap_or("known").to_string(),
        });
    }
    out
}

/// run a closure catching panics; returns Err(message) on panic
pub fn catch<T>(f: impl FnOnce() -> T) -> Result<T, String> {
    match std::panic::catch_unwind(std::panic::AssertUnwindSafe(f)) {
        Ok(v) => Ok(v),
        Err(e) => {
            let msg = if let Some(s) = e.downcast_ref::<&str>() {
                s.to_string()
            } else if let Some(s) = e.downcast_ref::<String>() {
                s.clone()
            } else {
                "panic".to_string()
            };
            Err(msg)
        }
    }
}

pub fn silence_panics() {
    std::panic::set_hook(Box::new(|_| {}));
}

pub fn trace() -> bool {
    static T: std::sync::OnceLock<bool> = std::sync::OnceLock::new();
    *T.get_or_init(|| std::env::var("VERIF_TRACE").is_ok())
}
