//! Exact rational LP / MILP oracle (two-phase simplex with Bland's rule over BigRational).
//! No tolerance anywhere. Kept boring on purpose.
use num_bigint::BigInt;
use num_rational::BigRational;
use num_traits::{One, Signed, ToPrimitive, Zero};

pub type Q = BigRational;

pub fn q(n: i64) -> Q {
    Q::from_integer(BigInt::from(n))
}
pub fn qr(n: i64, d: i64) -> Q {
    Q::new(BigInt::from(n), BigInt::from(d))
}
/// exact value of a finite f64 (every finite f64 is a dyadic rational)
pub fn qf(x: f64) -> Q {
    Q::from_float(x).unwrap_or_else(|| panic!("qf: non-finite {x}"))
}
pub fn to_f64(x: &Q) -> f64 {
    x.to_f64().unwrap_or(f64::NAN)
}
pub fn is_int(x: &Q) -> bool {
    x.is_integer()
}

#[derive(Clone, Copy, Debug, PartialEq, Eq, Hash)]
pub enum Rel {
    Le,
    Ge,
    Eq,
}

#[derive(Clone, Debug)]
pub struct Lp {
    pub n: usize,
    pub maximize: bool,
    pub obj: Vec<Q>,
    pub offset: Q,
    pub rows: Vec<(Vec<Q>, Rel, Q)>,
    pub lb: Vec<Option<Q>>,
    pub ub: Vec<Option<Q>>,
    /// integrality marks (used by milp only)
    pub int: Vec<bool>,
}

#[derive(Clone, Debug, PartialEq)]
pub enum LpResult {
    Optimal { value: Q, x: Vec<Q> },
    Infeasible,
    Unbounded,
}

impl Lp {
    pub fn new(n: usize) -> Lp {
        Lp {
            n,
            maximize: false,
            obj: vec![Q::zero(); n],
            offset: Q::zero(),
            rows: vec![],
            lb: vec![None; n],
            ub: vec![None; n],
            int: vec![false; n],
        }
    }
    pub fn eval_obj(&self, x: &[Q]) -> Q {
        let mut v = self.offset.clone();
        for i in 0..self.n {
            v += &self.obj[i] * &x[i];
        }
        v
    }
    pub fn feasible_point(&self, x: &[Q]) -> bool {
        for i in 0..self.n {
            if let Some(l) = &self.lb[i] {
                if &x[i] < l {
                    return false;
                }
            }
            if let Some(u) = &self.ub[i] {
                if &x[i] > u {
                    return false;
                }
            }
            if self.int[i] && !x[i].is_integer() {
                return false;
            }
        }
        for (c, r, b) in &self.rows {
            let mut s = Q::zero();
            for i in 0..self.n {
                s += &c[i] * &x[i];
            }
            let ok = match r {
                Rel::Le => &s <= b,
                Rel::Ge => &s >= b,
                Rel::Eq => &s == b,
            };
            if !ok {
                return false;
            }
        }
        true
    }
}

/// Dense tableau simplex on: min c.y  s.t.  A y = b, y >= 0, b >= 0.
/// Returns (status, y) ; status: 0 optimal, 1 infeasible, 2 unbounded
fn std_simplex(a: Vec<Vec<Q>>, b: Vec<Q>, c: Vec<Q>) -> (u8, Vec<Q>, Q) {
    let m = a.len();
    let n = c.len();
    // phase 1 with artificials
    let total = n + m;
    let mut t: Vec<Vec<Q>> = Vec::with_capacity(m);
    for i in 0..m {
        let mut row = a[i].clone();
        for j in 0..m {
            row.push(if i == j { Q::one() } else { Q::zero() });
        }
        row.push(b[i].clone());
        t.push(row);
    }
    let mut basis: Vec<usize> = (n..n + m).collect();
    // phase-1 cost row: minimize sum of artificials => reduced costs
    let mut cost = vec![Q::zero(); total + 1];
    for j in n..total {
        cost[j] = Q::one();
    }
    for i in 0..m {
        for j in 0..=total {
            let v = t[i][j].clone();
            cost[j] -= v;
        }
    }
    let run = |t: &mut Vec<Vec<Q>>, cost: &mut Vec<Q>, basis: &mut Vec<usize>, allowed: usize| -> bool {
        // returns false if unbounded
        loop {
            // Bland: smallest index with negative reduced cost
            let mut enter = None;
            for j in 0..allowed {
                if cost[j].is_negative() {
                    enter = Some(j);
                    break;
                }
            }
            let Some(e) = enter else { return true };
            // ratio test, Bland tie-break by smallest basis index
            let mut leave: Option<(usize, Q)> = None;
            for i in 0..t.len() {
                if t[i][e].is_positive() {
                    let ratio = &t[i][total] / &t[i][e];
                    match &leave {
                        None => leave = Some((i, ratio)),
                        Some((li, lr)) => {
                            if &ratio < lr || (&ratio == lr && basis[i] < basis[*li]) {
                                leave = Some((i, ratio));
                            }
                        }
                    }
                }
            }
            let Some((l, _)) = leave else { return false };
            pivot(t, cost, l, e);
            basis[l] = e;
        }
    };
    fn pivot(t: &mut Vec<Vec<Q>>, cost: &mut Vec<Q>, l: usize, e: usize) {
        let p = t[l][e].clone();
        for v in t[l].iter_mut() {
            *v = &*v / &p;
        }
        let prow = t[l].clone();
        for i in 0..t.len() {
            if i != l && !t[i][e].is_zero() {
                let f = t[i][e].clone();
                for j in 0..prow.len() {
                    if !prow[j].is_zero() {
                        let d = &f * &prow[j];
                        t[i][j] -= d;
                    }
                }
            }
        }
        if !cost[e].is_zero() {
            let f = cost[e].clone();
            for j in 0..prow.len() {
                if !prow[j].is_zero() {
                    let d = &f * &prow[j];
                    cost[j] -= d;
                }
            }
        }
    }
    let ok = run(&mut t, &mut cost, &mut basis, total);
    debug_assert!(ok, "phase 1 cannot be unbounded");
    // phase-1 value = -cost[total]
    if !cost[total].is_zero() {
        return (1, vec![], Q::zero());
    }
    // drive artificials out of the basis
    let mut i = 0;
    while i < t.len() {
        if basis[i] >= n {
            let mut col = None;
            for j in 0..n {
                if !t[i][j].is_zero() {
                    col = Some(j);
                    break;
                }
            }
            match col {
                Some(j) => {
                    pivot(&mut t, &mut cost, i, j);
                    basis[i] = j;
                    i += 1;
                }
                None => {
                    t.remove(i);
                    basis.remove(i);
                }
            }
        } else {
            i += 1;
        }
    }
    // phase 2 cost row
    let mut cost2 = vec![Q::zero(); total + 1];
    for j in 0..n {
        cost2[j] = c[j].clone();
    }
    for (i, &bj) in basis.iter().enumerate() {
        if !cost2[bj].is_zero() {
            let f = cost2[bj].clone();
            for j in 0..=total {
                if !t[i][j].is_zero() {
                    let d = &f * &t[i][j];
                    cost2[j] -= d;
                }
            }
        }
    }
    let ok = run(&mut t, &mut cost2, &mut basis, n);
    if !ok {
        return (2, vec![], Q::zero());
    }
    let mut y = vec![Q::zero(); n];
    for (i, &bj) in basis.iter().enumerate() {
        y[bj] = t[i][total].clone();
    }
    let val = -cost2[total].clone();
    (0, y, val)
}

/// Solve the continuous relaxation exactly (integrality marks ignored).
pub fn solve_lp(lp: &Lp) -> LpResult {
    // variable substitution
    // kinds: 0: x = lb + y ; 1: x = ub - y ; 2: x = y+ - y-
    let n = lp.n;
    let mut cols: Vec<(usize, i8)> = vec![]; // (orig var, sign)
    let mut shift: Vec<Q> = vec![Q::zero(); n];
    let mut extra_rows: Vec<(usize, Q)> = vec![]; // y_col <= range
    for i in 0..n {
        match (&lp.lb[i], &lp.ub[i]) {
            (Some(l), Some(u)) => {
                if l > u {
                    return LpResult::Infeasible;
                }
                shift[i] = l.clone();
                cols.push((i, 1));
                extra_rows.push((cols.len() - 1, u - l));
            }
            (Some(l), None) => {
                shift[i] = l.clone();
                cols.push((i, 1));
            }
            (None, Some(u)) => {
                shift[i] = u.clone();
                cols.push((i, -1));
            }
            (None, None) => {
                cols.push((i, 1));
                cols.push((i, -1));
            }
        }
    }
    let ny = cols.len();
    // rows
    let mut a: Vec<Vec<Q>> = vec![];
    let mut b: Vec<Q> = vec![];
    let mut rels: Vec<Rel> = vec![];
    for (coef, rel, rhs) in &lp.rows {
        let mut row = vec![Q::zero(); ny];
        let mut r = rhs.clone();
        for i in 0..n {
            r -= &coef[i] * &shift[i];
        }
        for (k, (i, s)) in cols.iter().enumerate() {
            row[k] = if *s > 0 { coef[*i].clone() } else { -coef[*i].clone() };
        }
        a.push(row);
        b.push(r);
        rels.push(*rel);
    }
    for (k, range) in &extra_rows {
        let mut row = vec![Q::zero(); ny];
        row[*k] = Q::one();
        a.push(row);
        b.push(range.clone());
        rels.push(Rel::Le);
    }
    // slacks
    let m = a.len();
    let nslack = rels.iter().filter(|r| **r != Rel::Eq).count();
    let tot = ny + nslack;
    let mut sidx = ny;
    for i in 0..m {
        a[i].resize(tot, Q::zero());
        match rels[i] {
            Rel::Le => {
                a[i][sidx] = Q::one();
                sidx += 1;
            }
            Rel::Ge => {
                a[i][sidx] = -Q::one();
                sidx += 1;
            }
            Rel::Eq => {}
        }
        if b[i].is_negative() {
            for v in a[i].iter_mut() {
                *v = -v.clone();
            }
            b[i] = -b[i].clone();
        }
    }
    let mut c = vec![Q::zero(); tot];
    for (k, (i, s)) in cols.iter().enumerate() {
        let v = if *s > 0 { lp.obj[*i].clone() } else { -lp.obj[*i].clone() };
        c[k] = if lp.maximize { -v } else { v };
    }
    let (status, y, _) = std_simplex(a, b, c);
    match status {
        1 => LpResult::Infeasible,
        2 => LpResult::Unbounded,
        _ => {
            let mut x = shift.clone();
            for (k, (i, s)) in cols.iter().enumerate() {
                if *s > 0 {
                    x[*i] += &y[k];
                } else {
                    x[*i] -= &y[k];
                }
            }
            // both-free split: x = y+ - y- handled by += / -= with zero shift
            let value = lp.eval_obj(&x);
            LpResult::Optimal { value, x }
        }
    }
}

/// Exact MILP by complete enumeration of the integer variables' boxes.
/// Integer variables must have finite bounds. Returns the relaxation-free exact optimum.
pub fn solve_milp(lp: &Lp) -> LpResult {
    let ints: Vec<usize> = (0..lp.n).filter(|i| lp.int[*i]).collect();
    if ints.is_empty() {
        return solve_lp(lp);
    }
    let mut ranges: Vec<(i64, i64)> = vec![];
    for &i in &ints {
        let l = lp.lb[i].as_ref().expect("integer var needs finite lb").ceil().to_integer().to_i64().unwrap();
        let u = lp.ub[i].as_ref().expect("integer var needs finite ub").floor().to_integer().to_i64().unwrap();
        if l > u {
            return LpResult::Infeasible;
        }
        ranges.push((l, u));
    }
    let mut cur: Vec<i64> = ranges.iter().map(|r| r.0).collect();
    let mut best: Option<(Q, Vec<Q>)> = None;
    let mut unbounded = false;
    let all_int = ints.len() == lp.n;
    loop {
        let mut sub = lp.clone();
        for (k, &i) in ints.iter().enumerate() {
            sub.lb[i] = Some(q(cur[k]));
            sub.ub[i] = Some(q(cur[k]));
        }
        let res = if all_int {
            let x: Vec<Q> = cur.iter().map(|v| q(*v)).collect();
            if sub.feasible_point(&x) {
                LpResult::Optimal { value: sub.eval_obj(&x), x }
            } else {
                LpResult::Infeasible
            }
        } else {
            solve_lp(&sub)
        };
        match res {
            LpResult::Optimal { value, x } => {
                let better = match &best {
                    None => true,
                    Some((bv, _)) => {
                        if lp.maximize {
                            &value > bv
                        } else {
                            &value < bv
                        }
                    }
                };
                if better {
                    best = Some((value, x));
                }
            }
            LpResult::Unbounded => unbounded = true,
            LpResult::Infeasible => {}
        }
        // next
        let mut k = 0;
        loop {
            if k == cur.len() {
                return if unbounded {
                    LpResult::Unbounded
                } else if let Some((value, x)) = best {
                    LpResult::Optimal { value, x }
                } else {
                    LpResult::Infeasible
                };
            }
            if cur[k] < ranges[k].1 {
                cur[k] += 1;
                break;
            }
            cur[k] = ranges[k].0;
            k += 1;
        }
    }
}

/// min and max of one variable over the LP's feasible set (continuous relaxation):
/// None = infeasible; Some((lo, hi)) with None = unbounded on that side
pub fn project(lp: &Lp, var: usize) -> Option<(Option<Q>, Option<Q>)> {
    let mut p = lp.clone();
    p.obj = vec![Q::zero(); lp.n];
    p.obj[var] = Q::one();
    p.offset = Q::zero();
    p.maximize = false;
    let lo = match solve_lp(&p) {
        LpResult::Infeasible => return None,
        LpResult::Unbounded => None,
        LpResult::Optimal { value, .. } => Some(value),
    };
    p.maximize = true;
    let hi = match solve_lp(&p) {
        LpResult::Infeasible => return None,
        LpResult::Unbounded => None,
        LpResult::Optimal { value, .. } => Some(value),
    };
    Some((lo, hi))
}

/// Brute-force cross-check of solve_lp for tiny LPs with all-finite or sign-constrained variables:
/// enumerates all vertices of the arrangement {rows as equalities, bounds as equalities}.
/// Only used by the oracle self-test. Requires every variable to have at least one finite bound
/// or the model to be bounded in practice; returns None when it cannot decide (unbounded dirs).
pub fn brute_force_opt(lp: &Lp) -> Option<LpResult> {
    // collect hyperplanes
    let n = lp.n;
    let mut planes: Vec<(Vec<Q>, Q)> = vec![];
    for (c, _, b) in &lp.rows {
        planes.push((c.clone(), b.clone()));
    }
    for i in 0..n {
        for bnd in [&lp.lb[i], &lp.ub[i]] {
            if let Some(v) = bnd {
                let mut c = vec![Q::zero(); n];
                c[i] = Q::one();
                planes.push((c, v.clone()));
            }
        }
    }
    if planes.len() < n {
        return None;
    }
    let mut best: Option<(Q, Vec<Q>)> = None;
    let mut idx: Vec<usize> = (0..n).collect();
    let cont = Lp { int: vec![false; n], ..lp.clone() };
    loop {
        // solve the n x n system
        let a: Vec<Vec<Q>> = idx.iter().map(|&k| planes[k].0.clone()).collect();
        let b: Vec<Q> = idx.iter().map(|&k| planes[k].1.clone()).collect();
        if let Some(x) = gauss(a, b) {
            if cont.feasible_point(&x) {
                let v = cont.eval_obj(&x);
                let better = match &best {
                    None => true,
                    Some((bv, _)) => if lp.maximize { &v > bv } else { &v < bv },
                };
                if better {
                    best = Some((v, x));
                }
            }
        }
        // next combination
        let mut k = n;
        loop {
            if k == 0 {
                return Some(match best {
                    Some((value, x)) => LpResult::Optimal { value, x },
                    None => LpResult::Infeasible,
                });
            }
            k -= 1;
            if idx[k] < planes.len() - (n - k) {
                idx[k] += 1;
                for j in k + 1..n {
                    idx[j] = idx[j - 1] + 1;
                }
                break;
            }
        }
    }
}

pub fn gauss(mut a: Vec<Vec<Q>>, mut b: Vec<Q>) -> Option<Vec<Q>> {
    let n = b.len();
    for col in 0..n {
        let mut p = None;
        for r in col..n {
            if !a[r][col].is_zero() {
                p = Some(r);
                break;
            }
        }
        let p = p?;
        a.swap(col, p);
        b.swap(col, p);
        let pv = a[col][col].clone();
        for j in 0..n {
            a[col][j] = &a[col][j] / &pv;
        }
        b[col] = &b[col] / &pv;
        for r in 0..n {
            if r != col && !a[r][col].is_zero() {
                let f = a[r][col].clone();
                for j in 0..n {
                    let d = &f * &a[col][j];
                    a[r][j] -= d;
                }
                let d = &f * &b[col];
                b[r] -= d;
            }
        }
    }
    Some(b)
}

pub fn abs_q(x: &Q) -> Q {
    x.abs()
}
