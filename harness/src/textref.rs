//! Reference model of the expression sub-language: tokens, precedence-climbing parser,
//! printers, and conversion of rooc's parse trees to canonical s-expressions.
use rooc::pre_model::PreModel;
use rooc::{BinOp, PreExp, Primitive, UnOp};
use serde_json::Value;

#[derive(Clone, Debug, PartialEq, Eq, Hash)]
pub enum Tok {
    Num(&'static str),
    Var(&'static str),
    Bin(B),
    Neg,
    Not,
    LPar,
    RPar,
}

#[derive(Clone, Copy, Debug, PartialEq, Eq, Hash)]
pub enum B {
    Add,
    Sub,
    Mul,
    Div,
    And,
    Xor,
    Or,
    Implies,
    Iff,
}
pub const BINOPS: [B; 9] = [B::Add, B::Sub, B::Mul, B::Div, B::And, B::Xor, B::Or, B::Implies, B::Iff];

impl B {
    /// higher binds tighter; implies and iff share the lowest level
    pub fn prec(self) -> u8 {
        match self {
            B::Implies | B::Iff => 1,
            B::Or => 2,
            B::Xor => 3,
            B::And => 4,
            B::Add | B::Sub => 5,
            B::Mul | B::Div => 6,
        }
    }
    pub fn left_assoc(self) -> bool {
        !matches!(self, B::Implies)
    }
    pub fn word(self) -> &'static str {
        match self {
            B::Add => "+",
            B::Sub => "-",
            B::Mul => "*",
            B::Div => "/",
            B::And => "and",
            B::Xor => "xor",
            B::Or => "or",
            B::Implies => "implies",
            B::Iff => "iff",
        }
    }
    pub fn alias(self) -> &'static str {
        match self {
            B::And => "&&",
            B::Or => "||",
            B::Implies => "->",
            B::Iff => "<->",
            o => o.word(),
        }
    }
    pub fn name(self) -> &'static str {
        match self {
            B::Add => "Add",
            B::Sub => "Sub",
            B::Mul => "Mul",
            B::Div => "Div",
            B::And => "And",
            B::Xor => "Xor",
            B::Or => "Or",
            B::Implies => "Implies",
            B::Iff => "Iff",
        }
    }
    pub fn is_logic(self) -> bool {
        matches!(self, B::And | B::Xor | B::Or | B::Implies | B::Iff)
    }
    pub fn from_rooc(op: BinOp) -> B {
        match op {
            BinOp::Add => B::Add,
            BinOp::Sub => B::Sub,
            BinOp::Mul => B::Mul,
            BinOp::Div => B::Div,
            BinOp::And => B::And,
            BinOp::Or => B::Or,
            BinOp::Xor => B::Xor,
            BinOp::Implies => B::Implies,
            BinOp::Iff => B::Iff,
        }
    }
}

#[derive(Clone, Debug, PartialEq, Eq, Hash)]
pub enum Ast {
    Num(String),
    Var(String),
    Bin(B, Box<Ast>, Box<Ast>),
    Neg(Box<Ast>),
    Not(Box<Ast>),
}

impl Ast {
    pub fn sexpr(&self) -> String {
        match self {
            Ast::Num(n) => norm_num(n),
            Ast::Var(v) => v.clone(),
            Ast::Bin(op, l, r) => format!("({} {} {})", op.name(), l.sexpr(), r.sexpr()),
            Ast::Neg(e) => format!("(Neg {})", e.sexpr()),
            Ast::Not(e) => format!("(Not {})", e.sexpr()),
        }
    }
}

pub fn norm_num(s: &str) -> String {
    match s.parse::<f64>() {
        Ok(v) => format!("{v}"),
        Err(_) => s.to_string(),
    }
}

/// Reference precedence-climbing parser over tokens. Err = ill-formed.
pub struct RefParser<'a> {
    toks: &'a [Tok],
    pos: usize,
}

impl<'a> RefParser<'a> {
    pub fn parse(toks: &'a [Tok]) -> Result<Ast, String> {
        let mut p = RefParser { toks, pos: 0 };
        let e = p.expr(1)?;
        if p.pos != toks.len() {
            return Err(format!("trailing token at {}", p.pos));
        }
        Ok(e)
    }
    fn peek(&self) -> Option<&Tok> {
        self.toks.get(self.pos)
    }
    fn expr(&mut self, min_prec: u8) -> Result<Ast, String> {
        let mut lhs = self.prefix()?;
        while let Some(Tok::Bin(op)) = self.peek().cloned() {
            if op.prec() < min_prec {
                break;
            }
            self.pos += 1;
            let next_min = if op.left_assoc() { op.prec() + 1 } else { op.prec() };
            let rhs = self.expr(next_min)?;
            lhs = Ast::Bin(op, Box::new(lhs), Box::new(rhs));
        }
        Ok(lhs)
    }
    /// at most one prefix operator, binding tighter than any binary operator
    fn prefix(&mut self) -> Result<Ast, String> {
        match self.peek() {
            Some(Tok::Neg) => {
                self.pos += 1;
                Ok(Ast::Neg(Box::new(self.leaf()?)))
            }
            // a '-' in operand position is the prefix minus
            Some(Tok::Bin(B::Sub)) => {
                self.pos += 1;
                Ok(Ast::Neg(Box::new(self.leaf()?)))
            }
            Some(Tok::Not) => {
                self.pos += 1;
                Ok(Ast::Not(Box::new(self.leaf()?)))
            }
            _ => self.leaf(),
        }
    }
    fn factor(&mut self) -> Result<Option<Ast>, String> {
        match self.peek().cloned() {
            Some(Tok::Num(n)) => {
                self.pos += 1;
                Ok(Some(Ast::Num(n.to_string())))
            }
            Some(Tok::LPar) => {
                self.pos += 1;
                let e = self.expr(1)?;
                match self.peek() {
                    Some(Tok::RPar) => {
                        self.pos += 1;
                        Ok(Some(e))
                    }
                    _ => Err("expected )".into()),
                }
            }
            _ => Ok(None),
        }
    }
    /// leaf := F+ v? (implicit multiplication forms one factor, folded to the left) | v
    fn leaf(&mut self) -> Result<Ast, String> {
        let mut factors = vec![];
        while let Some(f) = self.factor()? {
            factors.push(f);
        }
        if let Some(Tok::Var(v)) = self.peek().cloned() {
            if factors.is_empty() {
                self.pos += 1;
                return Ok(Ast::Var(v.to_string()));
            }
            self.pos += 1;
            factors.push(Ast::Var(v.to_string()));
        }
        let mut it = factors.into_iter();
        let Some(first) = it.next() else { return Err(format!("expected operand at {}", self.pos)) };
        Ok(it.fold(first, |acc, f| Ast::Bin(B::Mul, Box::new(acc), Box::new(f))))
    }
}

pub fn render_tokens(toks: &[Tok], alias: bool, tight: bool) -> String {
    let mut out = String::new();
    for (i, t) in toks.iter().enumerate() {
        let s: String = match t {
            Tok::Num(n) => n.to_string(),
            Tok::Var(v) => v.to_string(),
            Tok::Bin(b) => if alias { b.alias().to_string() } else { b.word().to_string() },
            Tok::Neg => "-".into(),
            Tok::Not => if alias { "!".into() } else { "not".into() },
            Tok::LPar => "(".into(),
            Tok::RPar => ")".into(),
        };
        if i > 0 {
            let prev = &toks[i - 1];
            let last = out.chars().last().unwrap_or(' ');
            let first = s.chars().next().unwrap_or(' ');
            let word = |c: char| c.is_alphanumeric() || c == '_' || c == '.';
            // glue only where no two word characters meet, except number directly followed by a variable (2x)
            let glue = tight && (!(word(last) && word(first)) || (matches!(prev, Tok::Num(_)) && matches!(t, Tok::Var(_))));
            if !glue {
                out.push(' ');
            }
        }
        out.push_str(&s);
    }
    out
}

/// canonical s-expression of rooc's pre-expression tree ("?" for constructs outside the sub-language)
pub fn preexp_sexpr(e: &PreExp) -> String {
    match e {
        PreExp::Primitive(p) => match p.value() {
            Primitive::Number(n) => format!("{n}"),
            Primitive::Integer(n) => format!("{}", *n as f64),
            Primitive::PositiveInteger(n) => format!("{}", *n as f64),
            Primitive::Boolean(b) => format!("{b}"),
            other => format!("?prim:{:?}", other),
        },
        PreExp::Variable(v) => v.value().clone(),
        PreExp::BinaryOperation(op, l, r) => format!("({} {} {})", B::from_rooc(*op.value()).name(), preexp_sexpr(l), preexp_sexpr(r)),
        PreExp::UnaryOperation(op, e) => match op.value() {
            UnOp::Neg => format!("(Neg {})", preexp_sexpr(e)),
            UnOp::Not => format!("(Not {})", preexp_sexpr(e)),
        },
        other => format!("?{}", other),
    }
}

/// canonical s-expression of a compiled expression
pub fn exp_sexpr(e: &rooc::model_transformer::Exp) -> String {
    use rooc::model_transformer::Exp;
    match e {
        Exp::Number(n) => format!("{n}"),
        Exp::Variable(v) => v.clone(),
        Exp::Abs(e) => format!("(Abs {})", exp_sexpr(e)),
        Exp::Min(v) => format!("(Min {})", v.iter().map(exp_sexpr).collect::<Vec<_>>().join(" ")),
        Exp::Max(v) => format!("(Max {})", v.iter().map(exp_sexpr).collect::<Vec<_>>().join(" ")),
        Exp::And(v) => format!("(And {})", v.iter().map(exp_sexpr).collect::<Vec<_>>().join(" ")),
        Exp::Or(v) => format!("(Or {})", v.iter().map(exp_sexpr).collect::<Vec<_>>().join(" ")),
        Exp::Not(e) => format!("(Not {})", exp_sexpr(e)),
        Exp::Xor(a, b) => format!("(Xor {} {})", exp_sexpr(a), exp_sexpr(b)),
        Exp::Implies(a, b) => format!("(Implies {} {})", exp_sexpr(a), exp_sexpr(b)),
        Exp::Iff(a, b) => format!("(Iff {} {})", exp_sexpr(a), exp_sexpr(b)),
        Exp::BinOp(op, a, b) => format!("({} {} {})", B::from_rooc(*op).name(), exp_sexpr(a), exp_sexpr(b)),
        Exp::UnOp(op, e) => match op {
            UnOp::Neg => format!("(Neg {})", exp_sexpr(e)),
            UnOp::Not => format!("(Not {})", exp_sexpr(e)),
        },
    }
}

/// JSON of a parsed program with every source span removed (structural identity)
pub fn premodel_structure(m: &PreModel) -> Value {
    let mut v = serde_json::to_value(m).unwrap_or(Value::Null);
    strip_spans(&mut v);
    v
}

pub fn strip_spans(v: &mut Value) {
    match v {
        Value::Object(map) => {
            map.remove("span");
            map.remove("source");
            // an InputSpan object itself
            if map.contains_key("start_line") && map.contains_key("start_column") && map.contains_key("len") {
                map.clear();
                return;
            }
            for (_, x) in map.iter_mut() {
                strip_spans(x);
            }
        }
        Value::Array(a) => {
            for x in a.iter_mut() {
                strip_spans(x);
            }
        }
        _ => {}
    }
}

/// does a binary child need parentheses under a binary parent, per the reference grammar?
pub fn needs_paren(parent: B, child: B, is_left: bool) -> bool {
    if is_left {
        // the left operand is accumulated by the climbing loop: it stays intact iff its own
        // right-hand parse stops before the parent operator
        if child.left_assoc() { !(child.prec() >= parent.prec()) } else { !(child.prec() > parent.prec()) }
    } else {
        // the right operand is parsed with min precedence prec+1 (left-assoc parent) or prec
        if parent.left_assoc() { !(child.prec() > parent.prec()) } else { !(child.prec() >= parent.prec()) }
    }
}

/// reference printer: exactly the parentheses needed to preserve grouping under the reference grammar
pub fn print_min(e: &Ast, alias: bool) -> String {
    fn go(e: &Ast, alias: bool, out: &mut String) {
        match e {
            Ast::Num(n) => out.push_str(n),
            Ast::Var(v) => out.push_str(v),
            Ast::Neg(i) => {
                out.push('-');
                leaf(i, alias, out);
            }
            Ast::Not(i) => {
                out.push_str(if alias { "!" } else { "not " });
                leaf(i, alias, out);
            }
            Ast::Bin(op, l, r) => {
                side(l, *op, true, alias, out);
                out.push(' ');
                out.push_str(if alias { op.alias() } else { op.word() });
                out.push(' ');
                side(r, *op, false, alias, out);
            }
        }
    }
    fn side(c: &Ast, parent: B, is_left: bool, alias: bool, out: &mut String) {
        let paren = match c {
            Ast::Bin(q, _, _) => needs_paren(parent, *q, is_left),
            _ => false,
        };
        if paren {
            out.push('(');
        }
        go(c, alias, out);
        if paren {
            out.push(')');
        }
    }
    fn leaf(e: &Ast, alias: bool, out: &mut String) {
        match e {
            Ast::Num(_) | Ast::Var(_) => go(e, alias, out),
            _ => {
                out.push('(');
                go(e, alias, out);
                out.push(')');
            }
        }
    }
    let mut s = String::new();
    go(e, alias, &mut s);
    s
}

pub fn print_full(e: &Ast) -> String {
    match e {
        Ast::Num(n) => n.clone(),
        Ast::Var(v) => v.clone(),
        Ast::Neg(i) => format!("-({})", print_full(i)),
        Ast::Not(i) => format!("not ({})", print_full(i)),
        Ast::Bin(op, l, r) => format!("({}) {} ({})", print_full(l), op.word(), print_full(r)),
    }
}
