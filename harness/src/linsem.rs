//! Shared machinery for the linearizer properties (C01, C02, C07, C08):
//! source models as rooc `Model` values, exact source semantics, exact projection of the
//! compiled linear model onto one continuous declared variable (region abstraction).
use crate::exact::{self, Lp, LpResult, Q, Rel, q, qf};
use crate::lm::{Dom, LmSpec, Sense};
use crate::refsem::{Env, Undef, eval};
use indexmap::IndexMap;
use num_traits::{Signed, Zero};
use rooc::model_transformer::{Constraint, DomainVariable, Exp, Model, Objective};
use rooc::{BinOp, Comparison, InputSpan, LinearModel, LinearizationError, Linearizer, OptimizationType, UnOp};

#[derive(Clone, Debug)]
pub struct SrcCons {
    pub lhs: Exp,
    pub rel: Rel,
    pub rhs: Exp,
    pub bare: bool,
    pub name: String,
}

#[derive(Clone, Debug)]
pub struct SrcModel {
    pub vars: Vec<(String, Dom)>,
    pub cons: Vec<SrcCons>,
    pub sense: Sense,
    pub obj: Exp,
}

pub fn var(n: &str) -> Exp {
    Exp::Variable(n.to_string())
}
pub fn num(v: f64) -> Exp {
    Exp::Number(v)
}
pub fn bin(op: BinOp, a: Exp, b: Exp) -> Exp {
    Exp::BinOp(op, a.to_box(), b.to_box())
}
pub fn neg(a: Exp) -> Exp {
    Exp::UnOp(UnOp::Neg, a.to_box())
}

pub fn exp_vars(e: &Exp, out: &mut Vec<String>) {
    match e {
        Exp::Number(_) => {}
        Exp::Variable(v) => out.push(v.clone()),
        Exp::Abs(i) | Exp::Not(i) | Exp::UnOp(_, i) => exp_vars(i, out),
        Exp::Min(v) | Exp::Max(v) | Exp::And(v) | Exp::Or(v) => v.iter().for_each(|x| exp_vars(x, out)),
        Exp::Xor(l, r) | Exp::Implies(l, r) | Exp::Iff(l, r) | Exp::BinOp(_, l, r) => {
            exp_vars(l, out);
            exp_vars(r, out);
        }
    }
}

impl SrcModel {
    pub fn show(&self) -> String {
        let mut s = String::new();
        s.push_str(match self.sense {
            Sense::Min => "min ",
            Sense::Max => "max ",
            Sense::Satisfy => "solve ",
        });
        if self.sense != Sense::Satisfy {
            s.push_str(&format!("{}", self.obj));
        }
        s.push_str(" s.t. ");
        for c in &self.cons {
            if c.bare {
                s.push_str(&format!("{}; ", c.lhs));
            } else {
                s.push_str(&format!("{} {} {}; ", c.lhs, crate::lm::rel_str(c.rel), c.rhs));
            }
        }
        s.push_str("| ");
        for (n, d) in &self.vars {
            s.push_str(&format!("{} as {}; ", n, d.show()));
        }
        s
    }

    /// all occurrences of variables (one usage mark per reference, as the transformer does)
    pub fn references(&self) -> Vec<String> {
        let mut v = vec![];
        if self.sense != Sense::Satisfy {
            exp_vars(&self.obj, &mut v);
        }
        for c in &self.cons {
            exp_vars(&c.lhs, &mut v);
            if !c.bare {
                exp_vars(&c.rhs, &mut v);
            }
        }
        v
    }

    /// a row whose name starts with this prefix is a strict comparison (< for Le, > for Ge)
    pub const STRICT_ROW: &'static str = "strict_";

    pub fn to_rooc(&self) -> Model {
        let mut domain: IndexMap<String, DomainVariable> = IndexMap::new();
        for (n, d) in &self.vars {
            domain.insert(n.clone(), DomainVariable::new(d.to_vt(), InputSpan::default()));
        }
        for r in self.references() {
            if let Some(v) = domain.get_mut(&r) {
                v.increment_usage();
            }
        }
        let cons = self
            .cons
            .iter()
            .map(|c| if c.bare { Constraint::new_logic_assertion(c.lhs.clone(), c.name.clone()) } else { Constraint::new(
                        c.lhs.clone(),
                        match (c.name.starts_with(Self::STRICT_ROW), c.rel) {
                            (true, Rel::Le) => Comparison::Less,
                            (true, Rel::Ge) => Comparison::Greater,
                            _ => crate::lm::rel_to_cmp(c.rel),
                        },
                        c.rhs.clone(),
                        c.name.clone(),
                    )
                })
            .collect();
        let (ot, obj) = match self.sense {
            Sense::Min => (OptimizationType::Min, self.obj.clone()),
            Sense::Max => (OptimizationType::Max, self.obj.clone()),
            Sense::Satisfy => (OptimizationType::Satisfy, Exp::Number(1.0)),
        };
        Model::new(Objective::new(ot, obj), cons, domain)
    }

    pub fn compile(&self) -> Result<LinearModel, LinearizationError> {
        Linearizer::linearize(self.to_rooc())
    }

    /// does `env` (values for every declared variable) satisfy domains and constraints? Err = undefined
    pub fn sat(&self, env: &Env) -> Result<bool, Undef> {
        for (n, d) in &self.vars {
            let v = &env[n];
            let (lo, hi) = d.bounds();
            if lo.is_finite() && *v < qf(lo) {
                return Ok(false);
            }
            if hi.is_finite() && *v > qf(hi) {
                return Ok(false);
            }
            if d.is_int() && !v.is_integer() {
                return Ok(false);
            }
        }
        for c in &self.cons {
            if c.bare {
                if eval(&c.lhs, env)?.is_zero() {
                    return Ok(false);
                }
            } else {
                let (l, r) = (eval(&c.lhs, env)?, eval(&c.rhs, env)?);
                let strict = c.name.starts_with(Self::STRICT_ROW);
                let ok = match c.rel {
                    Rel::Le => if strict { l < r } else { l <= r },
                    Rel::Ge => if strict { l > r } else { l >= r },
                    Rel::Eq => l == r,
                };
                if !ok {
                    return Ok(false);
                }
            }
        }
        Ok(true)
    }

    pub fn continuous_vars(&self) -> Vec<usize> {
        (0..self.vars.len()).filter(|&i| self.vars[i].1.is_continuous()).collect()
    }
}

/// Does `x` occur under a logic operator (then the expression is not a continuous PL function of x)?
pub fn occurs_under_logic(e: &Exp, x: &str, under: bool) -> bool {
    match e {
        Exp::Number(_) => false,
        Exp::Variable(v) => under && v == x,
        Exp::Abs(i) => occurs_under_logic(i, x, under),
        Exp::UnOp(UnOp::Neg, i) => occurs_under_logic(i, x, under),
        Exp::UnOp(UnOp::Not, i) | Exp::Not(i) => occurs_under_logic(i, x, true),
        Exp::Min(v) | Exp::Max(v) => v.iter().any(|i| occurs_under_logic(i, x, under)),
        Exp::And(v) | Exp::Or(v) => v.iter().any(|i| occurs_under_logic(i, x, true)),
        Exp::Xor(l, r) | Exp::Implies(l, r) | Exp::Iff(l, r) => occurs_under_logic(l, x, true) || occurs_under_logic(r, x, true),
        Exp::BinOp(op, l, r) => {
            let u = under || matches!(op, BinOp::And | BinOp::Or | BinOp::Xor | BinOp::Implies | BinOp::Iff);
            occurs_under_logic(l, x, u) || occurs_under_logic(r, x, u)
        }
    }
}

fn with_x(env: &Env, x: &str, v: &Q) -> Env {
    let mut e = env.clone();
    e.insert(x.to_string(), v.clone());
    e
}

/// zeros of the continuous piecewise-linear function f of `x`, given a superset `bps` of its breakpoints
fn roots(f: &dyn Fn(&Q) -> Option<Q>, bps: &[Q]) -> Vec<Q> {
    let mut out = vec![];
    if bps.is_empty() {
        // affine on the whole line
        let (a, b) = (f(&q(0)), f(&q(1)));
        if let (Some(a), Some(b)) = (a, b) {
            let slope = &b - &a;
            if !slope.is_zero() {
                out.push(-a / slope);
            }
        }
        return out;
    }
    // left ray
    let first = &bps[0];
    if let (Some(a), Some(b)) = (f(first), f(&(first - q(1)))) {
        let slope = &a - &b; // per unit towards +x
        if !slope.is_zero() {
            let r = first - &a / &slope;
            if &r < first {
                out.push(r);
            }
        }
    }
    for w in bps.windows(2) {
        if let (Some(a), Some(b)) = (f(&w[0]), f(&w[1])) {
            if (a.is_positive() && b.is_negative()) || (a.is_negative() && b.is_positive()) {
                let t = &a / (&a - &b);
                out.push(&w[0] + t * (&w[1] - &w[0]));
            }
        }
    }
    let last = &bps[bps.len() - 1];
    if let (Some(a), Some(b)) = (f(last), f(&(last + q(1)))) {
        let slope = &b - &a;
        if !slope.is_zero() {
            let r = last - &a / &slope;
            if &r > last {
                out.push(r);
            }
        }
    }
    out
}

fn sort_dedup(v: &mut Vec<Q>) {
    v.sort();
    v.dedup();
}

/// breakpoints of numeric expression `e` as a function of `x` (other variables fixed by env)
pub fn breakpoints(e: &Exp, x: &str, env: &Env) -> Vec<Q> {
    let f = |e: &Exp, t: &Q| eval(e, &with_x(env, x, t)).ok();
    let mut out = match e {
        Exp::Number(_) | Exp::Variable(_) => vec![],
        Exp::Abs(i) => {
            let mut b = breakpoints(i, x, env);
            let r = roots(&|t| f(i, t), &b);
            b.extend(r);
            b
        }
        Exp::Min(v) | Exp::Max(v) => {
            let mut b: Vec<Q> = v.iter().flat_map(|i| breakpoints(i, x, env)).collect();
            sort_dedup(&mut b);
            let mut extra = vec![];
            for i in 0..v.len() {
                for j in i + 1..v.len() {
                    let d = |t: &Q| match (f(&v[i], t), f(&v[j], t)) {
                        (Some(a), Some(c)) => Some(a - c),
                        _ => None,
                    };
                    extra.extend(roots(&d, &b));
                }
            }
            b.extend(extra);
            b
        }
        Exp::UnOp(_, i) | Exp::Not(i) => breakpoints(i, x, env),
        Exp::And(v) | Exp::Or(v) => v.iter().flat_map(|i| breakpoints(i, x, env)).collect(),
        Exp::Xor(l, r) | Exp::Implies(l, r) | Exp::Iff(l, r) | Exp::BinOp(_, l, r) => {
            let mut b = breakpoints(l, x, env);
            b.extend(breakpoints(r, x, env));
            b
        }
    };
    sort_dedup(&mut out);
    out
}

/// all points of the real line at which the truth of the source model (as a function of x) can change
pub fn source_breakpoints(m: &SrcModel, x: &str, env: &Env) -> Vec<Q> {
    let mut pts: Vec<Q> = vec![];
    for (n, d) in &m.vars {
        if n == x {
            let (lo, hi) = d.bounds();
            if lo.is_finite() {
                pts.push(qf(lo));
            }
            if hi.is_finite() {
                pts.push(qf(hi));
            }
        }
    }
    for c in &m.cons {
        if c.bare {
            continue;
        }
        let g = bin(BinOp::Sub, c.lhs.clone(), c.rhs.clone());
        let mut b = breakpoints(&g, x, env);
        let r = roots(&|t| eval(&g, &with_x(env, x, t)).ok(), &b);
        b.extend(r);
        pts.extend(b);
    }
    sort_dedup(&mut pts);
    pts
}

/// test points deciding a property that is constant on the open cells between `pts`:
/// every point, every midpoint, one point beyond each end
pub fn test_points(pts: &[Q]) -> Vec<Q> {
    if pts.is_empty() {
        return vec![q(0), q(-7), q(7)];
    }
    let mut out = vec![&pts[0] - q(1)];
    for (i, p) in pts.iter().enumerate() {
        out.push(p.clone());
        if i + 1 < pts.len() {
            out.push((p + &pts[i + 1]) / q(2));
        }
    }
    out.push(&pts[pts.len() - 1] + q(1));
    out
}

/// The compiled linear model split into declared variables and auxiliaries.
pub struct Compiled {
    pub spec: LmSpec,
    /// index into spec.vars of every declared variable present in the linear model
    pub declared: Vec<(String, usize)>,
    pub aux: Vec<usize>,
    pub int_aux: Vec<usize>,
}

impl Compiled {
    pub fn new(lm: &LinearModel, src: &SrcModel) -> Option<Compiled> {
        let spec = LmSpec::from_rooc(lm)?;
        let mut declared = vec![];
        let mut aux = vec![];
        let mut int_aux = vec![];
        for (i, (n, d)) in spec.vars.iter().enumerate() {
            if src.vars.iter().any(|v| &v.0 == n) {
                declared.push((n.clone(), i));
            } else {
                aux.push(i);
                if d.is_int() {
                    int_aux.push(i);
                }
            }
        }
        Some(Compiled { spec, declared, aux, int_aux })
    }

    /// like `project_x`, on the model whose continuous domain bounds are widened by 1e-9 (relative):
    /// derived bounds are f64 roundings of exact values such as 2/3
    pub fn project_x_relaxed(&self, x: &str, fixed: &Env) -> Vec<(Option<Q>, Option<Q>)> {
        let mut widened = Compiled { spec: self.spec.clone(), declared: self.declared.clone(), aux: self.aux.clone(), int_aux: self.int_aux.clone() };
        for (_, d) in widened.spec.vars.iter_mut() {
            if d.is_continuous() {
                let (lo, hi) = d.bounds();
                let w = |v: f64| 1e-9 * v.abs().max(1.0);
                let nlo = if lo.is_finite() { lo - w(lo) } else { lo };
                let nhi = if hi.is_finite() { hi + w(hi) } else { hi };
                *d = Dom::Real(nlo, nhi);
            }
        }
        widened.project_x(x, fixed, &[])
    }

    /// exact LP of the rows and domains with the given declared variables fixed
    pub fn lp_with(&self, fixed: &Env) -> Lp {
        let mut lp = self.spec.to_exact();
        for (n, i) in &self.declared {
            if let Some(v) = fixed.get(n) {
                lp.lb[*i] = Some(v.clone());
                lp.ub[*i] = Some(v.clone());
                lp.int[*i] = false; // fixed value decides integrality below
            }
        }
        lp
    }

    /// do the fixed values (except `skip`) lie inside the linear model's domains of their variables?
    pub fn fixed_in_domain(&self, fixed: &Env, skip: Option<&str>) -> bool {
        for (n, i) in &self.declared {
            if Some(n.as_str()) == skip {
                continue;
            }
            if let Some(v) = fixed.get(n) {
                let d = &self.spec.vars[*i].1;
                let (lo, hi) = d.bounds();
                if (lo.is_finite() && *v < qf(lo)) || (hi.is_finite() && *v > qf(hi)) || (d.is_int() && !v.is_integer()) {
                    return false;
                }
            }
        }
        true
    }

    /// is the point (all declared variables fixed) extendable to a feasible point of the linear model?
    pub fn extendable(&self, fixed: &Env) -> bool {
        // declared variables missing from `fixed` stay free within their domain; a fixed value outside
        // the linear model's own domain (bounds / integrality) is infeasible
        if !self.fixed_in_domain(fixed, None) {
            return false;
        }
        let mut lp = self.lp_with(fixed);
        lp.obj = vec![Q::zero(); lp.n];
        lp.offset = Q::zero();
        !matches!(exact::solve_milp(&lp), LpResult::Infeasible)
    }

    /// Projection onto declared variable `x` (others fixed): union of closed intervals, one per
    /// assignment of the integer auxiliaries; None bound = unbounded. Optional extra rows.
    pub fn project_x(&self, x: &str, fixed: &Env, extra_rows: &[(Vec<Q>, Rel, Q)]) -> Vec<(Option<Q>, Option<Q>)> {
        let Some(xi) = self.declared.iter().find(|d| d.0 == x).map(|d| d.1) else { return vec![] };
        // a fixed value outside the linear model's own domain of that variable admits no point at all
        if !self.fixed_in_domain(fixed, Some(x)) {
            return vec![];
        }
        let mut base = self.lp_with(fixed);
        for r in extra_rows {
            base.rows.push(r.clone());
        }
        // x itself is continuous here
        base.int[xi] = false;
        let ints: Vec<usize> = (0..base.n).filter(|i| base.int[*i]).collect();
        let mut ranges = vec![];
        for &i in &ints {
            let lo = base.lb[i].clone().map(|v| v.ceil()).unwrap_or(q(0));
            let hi = base.ub[i].clone().map(|v| v.floor()).unwrap_or(q(1));
            ranges.push((lo, hi));
        }
        let mut out = vec![];
        let mut cur: Vec<Q> = ranges.iter().map(|r| r.0.clone()).collect();
        if ranges.iter().any(|r| r.0 > r.1) {
            return out;
        }
        loop {
            let mut lp = base.clone();
            for (k, &i) in ints.iter().enumerate() {
                lp.lb[i] = Some(cur[k].clone());
                lp.ub[i] = Some(cur[k].clone());
                lp.int[i] = false;
            }
            if let Some(iv) = exact::project(&lp, xi) {
                out.push(iv);
            }
            let mut k = 0;
            loop {
                if k == cur.len() {
                    return out;
                }
                if cur[k] < ranges[k].1 {
                    cur[k] += q(1);
                    break;
                }
                cur[k] = ranges[k].0.clone();
                k += 1;
            }
        }
    }
}

pub fn in_intervals(t: &Q, ivs: &[(Option<Q>, Option<Q>)]) -> bool {
    ivs.iter().any(|(lo, hi)| lo.as_ref().map(|l| l <= t).unwrap_or(true) && hi.as_ref().map(|h| t <= h).unwrap_or(true))
}

pub fn interval_endpoints(ivs: &[(Option<Q>, Option<Q>)]) -> Vec<Q> {
    let mut v = vec![];
    for (lo, hi) in ivs {
        if let Some(l) = lo {
            v.push(l.clone());
        }
        if let Some(h) = hi {
            v.push(h.clone());
        }
    }
    v
}

/// all assignments of the discrete declared variables (and grid values for extra continuous ones)
pub fn discrete_assignments(m: &SrcModel, skip: Option<&str>, grid: &[Q]) -> Vec<Env> {
    let mut envs = vec![Env::new()];
    for (n, d) in &m.vars {
        if Some(n.as_str()) == skip {
            continue;
        }
        let values: Vec<Q> = match d {
            Dom::Bool => vec![q(0), q(1)],
            Dom::Int(a, b) => (*a..=*b).map(|v| q(v as i64)).collect(),
            _ => grid.to_vec(),
        };
        let mut next = vec![];
        for e in &envs {
            for v in &values {
                let mut e2 = e.clone();
                e2.insert(n.clone(), v.clone());
                next.push(e2);
            }
        }
        envs = next;
    }
    envs
}

pub fn comparison_of(rel: Rel) -> Comparison {
    crate::lm::rel_to_cmp(rel)
}
