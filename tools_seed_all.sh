#!/bin/bash
# Regression over all stored seeded changes: applies each to /repo, runs the quick check of its
# property, restores /repo, and prints whether the change was reported. Exit 1 if any is missed.
cd "$(dirname "$0")"
[ -z "$(git -C /repo status --porcelain)" ] || { echo "/repo not clean"; exit 2; }
missed=0
for d in seeded/*/; do
  name=$(basename "$d"); id=$(python3 -c "import json;print(json.load(open('$d/meta.json'))['property'])")
  git -C /repo apply "$PWD/$d/patch.diff" || { echo "$name: patch does not apply"; missed=1; continue; }
  ./check "$id" --tier quick > /tmp/seedall_$name.log 2>&1; rc=$?
  git -C /repo checkout -- .
  v=$(grep -c '^VIOLATION' /tmp/seedall_$name.log); rm -f /tmp/seedall_$name.log
  if [ $rc -eq 1 ] && [ "$v" -gt 0 ]; then echo "$name ($id quick): reported, $v violation lines"; else echo "$name ($id quick): MISSED (exit=$rc)"; missed=1; fi
done
exit $missed
