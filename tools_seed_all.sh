#!/bin/bash
# Regression over all stored seeded changes: applies each to /repo, runs the quick check of its
# property, restores /repo, and prints whether the change was reported. Exit 1 if any is missed.
cd "$(dirname "$0")"
[ -z "$(git -C /repo status --porcelain)" ] || { echo "/repo not clean"; exit 2; }
missed=0
for d in seeded/*/; do
  name=$(basename "$d")
  [ -f "$d/meta.json" ] || continue
  # the check that reports the change: its own property's, unless meta.json names a neighbouring one
  # (regression_property); a change that is deliberately left uncovered (not_covered) is only listed
  id=$(python3 -c "import json;m=json.load(open('$d/meta.json'));print('-' if m.get('not_covered') else m.get('regression_property', m['property']))")
  if [ "$id" = "-" ]; then echo "$name: not covered (documented in meta.json and DESIGN.md)"; continue; fi
  git -C /repo apply "$PWD/$d/patch.diff" || { echo "$name: patch does not apply"; missed=1; continue; }
  ./check "$id" --tier quick > /tmp/seedall_$name.log 2>&1; rc=$?
  git -C /repo checkout -- .
  v=$(grep -c '^VIOLATION' /tmp/seedall_$name.log); rm -f /tmp/seedall_$name.log
  if [ $rc -eq 1 ] && [ "$v" -gt 0 ]; then echo "$name ($id quick): reported, $v violation lines"; else echo "$name ($id quick): MISSED (exit=$rc)"; missed=1; fi
done
exit $missed
